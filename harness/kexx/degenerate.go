package kexx

import (
	"crypto/ecdh"
	"crypto/rand"
	"crypto/rsa"
	"crypto/sha1"
	"crypto/sha256"
	"math/big"
	mrand "math/rand"

	"verifharness/world"
)

// Instance is one concrete member of a degenerate class.
type Instance struct {
	Name string
	Val  []byte // nil is meaningful (class *_nil)
}

// Instances expands a degenerate class of spec/Kex.tla into concrete parameters.
//
// honest is a well-formed parameter for the same direction produced by a real session (the
// structural classes are derived from it), own is the receiving party's own parameter (reflected
// class), owner the RSA owner key (ASYMKEX). full selects the exhaustive expansion.
func Instances(class, suite string, honest, own []byte, owner *rsa.PrivateKey, rng *mrand.Rand, full bool) []Instance {
	var out []Instance
	add := func(name string, v []byte) { out = append(out, Instance{Name: name, Val: v}) }
	switch Family(suite) {
	case "dh":
		p := Group(suite)
		n := (p.BitLen() + 7) / 8
		one := big.NewInt(1)
		switch class {
		case "dh_0":
			add("00", []byte{0})
			add("00*len(p)", make([]byte, n))
		case "dh_1":
			add("01", []byte{1})
			add("01 padded", fixedBytes(one, n))
		case "dh_pm1":
			add("p-1", new(big.Int).Sub(p, one).Bytes())
			add("p-1 padded", append([]byte{0}, new(big.Int).Sub(p, one).Bytes()...))
		case "dh_p":
			add("p", p.Bytes())
		case "dh_pp1":
			add("p+1", new(big.Int).Add(p, one).Bytes())
		case "dh_2p":
			add("2p", new(big.Int).Lsh(p, 1).Bytes())
			add("2p-1", new(big.Int).Sub(new(big.Int).Lsh(p, 1), one).Bytes())
			add("2p+1", new(big.Int).Add(new(big.Int).Lsh(p, 1), one).Bytes())
			add("2^bits", new(big.Int).Lsh(one, uint(p.BitLen())).Bytes())
			add("p+honest (out of range, same residue)", new(big.Int).Add(p, new(big.Int).SetBytes(honest)).Bytes())
		case "dh_empty":
			add("empty", []byte{})
		case "dh_nil":
			add("nil", nil)
		}
	case "ecdh":
		hp, err := ParseEcParam(honest)
		if err != nil {
			panic("honest ecdh parameter does not parse: " + err.Error())
		}
		switch class {
		case "ec_empty":
			add("empty", []byte{})
		case "ec_nil":
			add("nil", nil)
		case "ec_truncated":
			var cuts []int
			for i := 1; i < len(honest); i++ {
				cuts = append(cuts, i)
			}
			if !full {
				rng.Shuffle(len(cuts), func(i, j int) { cuts[i], cuts[j] = cuts[j], cuts[i] })
				// always keep the field boundaries
				cuts = append([]int{1, 2, 2 + len(hp.X), 4 + len(hp.X), 4 + len(hp.X) + len(hp.Y), 6 + len(hp.X) + len(hp.Y), len(honest) - 1}, cuts[:4]...)
			}
			for _, c := range cuts {
				add("cut@"+itoa(c), append([]byte(nil), honest[:c]...))
			}
		case "ec_coord_short":
			if hp.X[0] != 0 && hp.Y[0] != 0 {
				add("both coordinates one byte short", EcParam{X: hp.X[1:], Y: hp.Y[1:], Rand: hp.Rand}.Encode())
			}
			if hp.X[0] != 0 {
				add("x one byte short", EcParam{X: hp.X[1:], Y: hp.Y, Rand: hp.Rand}.Encode())
			}
			if hp.Y[0] != 0 {
				add("y one byte short", EcParam{X: hp.X, Y: hp.Y[1:], Rand: hp.Rand}.Encode())
			}
			add("zero-length coordinates", EcParam{X: nil, Y: nil, Rand: hp.Rand}.Encode())
			add("half-length coordinates", EcParam{X: hp.X[:len(hp.X)/2], Y: hp.Y[:len(hp.Y)/2], Rand: hp.Rand}.Encode())
		case "ec_coord_long":
			add("coordinates one byte long (01 prefix)", EcParam{X: append([]byte{1}, hp.X...), Y: append([]byte{1}, hp.Y...), Rand: hp.Rand}.Encode())
			add("x one byte long (01 prefix)", EcParam{X: append([]byte{1}, hp.X...), Y: hp.Y, Rand: hp.Rand}.Encode())
			add("coordinates doubled", EcParam{X: append(append([]byte(nil), hp.X...), hp.X...), Y: append(append([]byte(nil), hp.Y...), hp.Y...), Rand: hp.Rand}.Encode())
		case "ec_offcurve":
			flip := func(b []byte, i int, m byte) []byte { c := append([]byte(nil), b...); c[i] ^= m; return c }
			add("y low bit flipped", EcParam{X: hp.X, Y: flip(hp.Y, len(hp.Y)-1, 1), Rand: hp.Rand}.Encode())
			add("x low bit flipped", EcParam{X: flip(hp.X, len(hp.X)-1, 1), Y: hp.Y, Rand: hp.Rand}.Encode())
			add("x and y swapped", EcParam{X: hp.Y, Y: hp.X, Rand: hp.Rand}.Encode())
			k := 3
			if full {
				k = 24
			}
			for i := 0; i < k; i++ {
				bit := rng.Intn(len(hp.Y) * 8)
				add("y bit "+itoa(bit)+" flipped", EcParam{X: hp.X, Y: flip(hp.Y, bit/8, 1<<(bit%8)), Rand: hp.Rand}.Encode())
			}
		case "ec_zero_point":
			z := make([]byte, len(hp.X))
			ff := make([]byte, len(hp.X))
			for i := range ff {
				ff[i] = 0xff
			}
			add("(0,0)", EcParam{X: z, Y: z, Rand: hp.Rand}.Encode())
			add("(0,y)", EcParam{X: z, Y: hp.Y, Rand: hp.Rand}.Encode())
			add("(x,0)", EcParam{X: hp.X, Y: z, Rand: hp.Rand}.Encode())
			add("(ff..,ff..) not reduced", EcParam{X: ff, Y: ff, Rand: hp.Rand}.Encode())
		case "ec_other_curve":
			other := ecdh.P384()
			if suite == "ECDH384" {
				other = ecdh.P256()
			}
			k, err := other.GenerateKey(rand.Reader)
			if err != nil {
				panic(err)
			}
			pb := k.PublicKey().Bytes()
			cl := (len(pb) - 1) / 2
			add("point of the other NIST curve", EcParam{X: pb[1 : 1+cl], Y: pb[1+cl:], Rand: hp.Rand}.Encode())
		case "ec_reflect":
			op, err := ParseEcParam(own)
			if err == nil {
				r := make([]byte, len(hp.Rand))
				_, _ = rand.Read(r)
				add("own public value, fresh random", EcParam{X: op.X, Y: op.Y, Rand: r}.Encode())
				add("own parameter verbatim", append([]byte(nil), own...))
			}
		case "ec_rand_len":
			add("empty random", EcParam{X: hp.X, Y: hp.Y, Rand: nil}.Encode())
			add("random one byte short", EcParam{X: hp.X, Y: hp.Y, Rand: hp.Rand[1:]}.Encode())
			add("random one byte long", EcParam{X: hp.X, Y: hp.Y, Rand: append([]byte{7}, hp.Rand...)}.Encode())
		case "ec_trailing":
			add("one trailing byte", append(append([]byte(nil), honest...), 0))
			add("trailing field", append(append([]byte(nil), honest...), 0, 1, 0xaa))
		}
	case "asym":
		k := owner.Size()
		flip := func(b []byte, bit int) []byte { c := append([]byte(nil), b...); c[bit/8] ^= 1 << (bit % 8); return c }
		switch class {
		case "oaep_empty":
			add("empty", []byte{})
		case "oaep_nil":
			add("nil", nil)
		case "oaep_short":
			add("last byte dropped", append([]byte(nil), honest[:k-1]...))
			if honest[0] != 0 {
				// with a leading zero byte the shorter string is the same integer: Go's RSA accepts it
				// and the result is the honest key, which the property does not forbid
				add("first byte dropped", append([]byte(nil), honest[1:]...))
			}
			add("half", append([]byte(nil), honest[:k/2]...))
			add("one byte", []byte{honest[0]})
		case "oaep_long":
			add("00 appended", append(append([]byte(nil), honest...), 0))
			add("00 prepended", append([]byte{0}, honest...))
			add("doubled", append(append([]byte(nil), honest...), honest...))
		case "oaep_garbled":
			n := 4
			if full {
				n = 48
			}
			for i := 0; i < n; i++ {
				bit := rng.Intn(k * 8)
				add("bit "+itoa(bit)+" flipped", flip(honest, bit))
			}
			rnd := make([]byte, k)
			_, _ = rand.Read(rnd)
			rnd[0] &= 0x7f
			add("random bytes", rnd)
			add("all zero", make([]byte, k))
			ff := make([]byte, k)
			for i := range ff {
				ff[i] = 0xff
			}
			add("all ff (>= modulus)", ff)
			add("modulus", fixedBytes(owner.N, k))
			add("modulus - 1", fixedBytes(new(big.Int).Sub(owner.N, big.NewInt(1)), k))
			add("one", fixedBytes(big.NewInt(1), k))
			m := make([]byte, RandLen(suite))
			_, _ = rand.Read(m)
			if c, err := rsa.EncryptOAEP(sha1.New(), rand.Reader, &owner.PublicKey, m, nil); err == nil {
				add("OAEP with SHA-1", c)
			}
			if c, err := rsa.EncryptOAEP(sha256.New(), rand.Reader, &owner.PublicKey, m, []byte("label")); err == nil {
				add("OAEP with a label", c)
			}
			if c, err := rsa.EncryptPKCS1v15(rand.Reader, &owner.PublicKey, m); err == nil {
				add("PKCS#1 v1.5 padding", c)
			}
		case "oaep_other_key":
			m := make([]byte, RandLen(suite))
			_, _ = rand.Read(m)
			for idx := 1; idx <= 2; idx++ {
				ok := world.RSAKey(k*8, 100+idx)
				if ok.N.Cmp(owner.N) == 0 {
					continue
				}
				if c, err := oaepEncrypt(&ok.PublicKey, m); err == nil {
					add("encrypted to another key", c)
				}
			}
		case "oaep_msg_len":
			for _, l := range []int{0, 1, 16, RandLen(suite) - 1, RandLen(suite) + 1} {
				m := make([]byte, l)
				_, _ = rand.Read(m)
				if c, err := oaepEncrypt(&owner.PublicKey, m); err == nil {
					add("random of "+itoa(l)+" bytes", c)
				}
			}
		}
	}
	return out
}

func itoa(i int) string {
	return big.NewInt(int64(i)).String()
}
