package kexx

import (
	"context"
	"crypto/ecdh"
	"crypto/rand"
	"crypto/rsa"
	"crypto/sha256"
	"encoding"
	"fmt"
	"math/big"

	"github.com/fido-device-onboard/go-fdo/kex"
	"github.com/fido-device-onboard/go-fdo/protocol"

	"verifharness/world"
)

// AllSuites / AllCiphers are the 6 x 7 configurations of the property.
var AllSuites = []string{"ECDH256", "ECDH384", "DHKEXid14", "DHKEXid15", "ASYMKEX2048", "ASYMKEX3072"}
var AllCiphers = []string{"A128GCM", "A192GCM", "A256GCM", "COSEAES128CBC", "COSEAES128CTR", "COSEAES256CBC", "COSEAES256CTR"}

// Family maps a suite to ecdh / dh / asym.
func Family(suite string) string {
	switch suite {
	case "ECDH256", "ECDH384":
		return "ecdh"
	case "DHKEXid14", "DHKEXid15":
		return "dh"
	}
	return "asym"
}

// CipherID resolves the library identifier of a cipher suite name.
func CipherID(name string) kex.CipherSuiteID {
	id, ok := kex.CipherSuiteByName(name)
	if !ok {
		panic("unknown cipher " + name)
	}
	return id
}

// OwnerKey returns the RSA owner key a suite is used with (nil for ECDH suites, as in to2.go
// where the type assertion to *rsa.PrivateKey fails for EC owner keys).
func OwnerKey(suite string, idx int) *rsa.PrivateKey {
	switch suite {
	case "DHKEXid14", "ASYMKEX2048":
		return world.RSAKey(2048, idx)
	case "DHKEXid15", "ASYMKEX3072":
		return world.RSAKey(3072, idx)
	}
	return nil
}

func pubOf(k *rsa.PrivateKey) *rsa.PublicKey {
	if k == nil {
		return nil
	}
	return &k.PublicKey
}

// Keys returns the exported SEK and SVK of a library session.
func Keys(s kex.Session) (sek, svk []byte, ok bool) {
	switch v := s.(type) {
	case *kex.ECDHSession:
		return v.SEK, v.SVK, true
	case *kex.DHSession:
		return v.SEK, v.SVK, true
	case *kex.OAEPSession:
		return v.SEK, v.SVK, true
	}
	return nil, nil, false
}

// Curve of an ECDH suite.
func Curve(suite string) ecdh.Curve {
	if suite == "ECDH384" {
		return ecdh.P384()
	}
	return ecdh.P256()
}

// RandLen is the length of the random of an ECDH suite / of the ASYMKEX randoms.
func RandLen(suite string) int {
	switch suite {
	case "ECDH256":
		return 16
	case "ECDH384":
		return 48
	case "ASYMKEX2048", "DHKEXid14":
		return 32
	}
	return 96
}

// persister abstracts the two ways the owner serialises a session.
type persister interface {
	Persist(suite string, s kex.Session) error
	Restore() (kex.Session, error)
	Close()
}

// binPersist uses MarshalBinary / UnmarshalBinary directly, restoring into a fresh session built
// the way sqlite.DB.XSession builds it (Suite.New(nil, 1)).
type binPersist struct {
	suite string
	data  []byte
}

func (p *binPersist) Persist(suite string, s kex.Session) error {
	m, ok := s.(encoding.BinaryMarshaler)
	if !ok {
		return fmt.Errorf("session does not implement BinaryMarshaler")
	}
	d, err := m.MarshalBinary()
	if err != nil {
		return err
	}
	p.suite, p.data = suite, d
	return nil
}

func (p *binPersist) Restore() (kex.Session, error) {
	s := kex.Suite(p.suite).New(nil, kex.A128GcmCipher)
	if err := s.(encoding.BinaryUnmarshaler).UnmarshalBinary(p.data); err != nil {
		return nil, err
	}
	return s, nil
}

func (p *binPersist) Close() {}

// sqlPersist goes through sqlite.DB SetXSession / XSession under a fresh TO2 token.
type sqlPersist struct {
	st  *world.Store
	ctx context.Context
}

func newSQLPersist(st *world.Store) (*sqlPersist, error) {
	ctx := context.Background()
	tok, err := st.NewToken(ctx, protocol.TO2Protocol)
	if err != nil {
		return nil, err
	}
	return &sqlPersist{st: st, ctx: st.TokenContext(ctx, tok)}, nil
}

func (p *sqlPersist) Persist(suite string, s kex.Session) error {
	return p.st.SetXSession(p.ctx, kex.Suite(suite), s)
}

func (p *sqlPersist) Restore() (kex.Session, error) {
	_, s, err := p.st.XSession(p.ctx)
	return s, err
}

func (p *sqlPersist) Close() { _ = p.st.InvalidateToken(p.ctx) }

// guarded runs f, converting a panic into ("panic", frame).
func guarded(f func() error) (res string, detail string) {
	defer func() {
		if r := recover(); r != nil {
			res = "panic"
			detail = world.TopLibFrame() + " :: " + fmt.Sprint(r)
		}
	}()
	if err := f(); err != nil {
		return "err", err.Error()
	}
	return "ok", ""
}

// oaepEncrypt is the ASYMKEX device parameter: RSA-OAEP (SHA-256, MGF1-SHA-256, empty label) of
// the device random under the owner key.
func oaepEncrypt(pub *rsa.PublicKey, m []byte) ([]byte, error) {
	return rsa.EncryptOAEP(sha256.New(), rand.Reader, pub, m, nil)
}

func fixedBytes(v *big.Int, n int) []byte {
	b := make([]byte, n)
	v.FillBytes(b)
	return b
}
