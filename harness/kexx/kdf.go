package kexx

import (
	"bytes"
	"crypto/ecdh"
	"crypto/rand"
	"crypto/rsa"
	"crypto/sha256"
	"encoding/hex"
	"encoding/json"
	"fmt"
	"io"
	"math/big"
	"os"
	"runtime"
	"sync"

	"github.com/fido-device-onboard/go-fdo/kex"
)

// CipherParams is the harness' own copy of the cipher table of spec/Kex.tla (bytes).
type CipherParams struct {
	Prf            string
	KeyLen, MacLen int
}

// CipherTable: KeyLen / MacKeyLen / PRF per cipher suite.
var CipherTable = map[string]CipherParams{
	"A128GCM":       {"HMAC-SHA256", 16, 0},
	"A192GCM":       {"HMAC-SHA256", 24, 0},
	"A256GCM":       {"HMAC-SHA256", 32, 0},
	"COSEAES128CBC": {"HMAC-SHA256", 16, 16},
	"COSEAES128CTR": {"HMAC-SHA256", 16, 16},
	"COSEAES256CBC": {"HMAC-SHA384", 32, 32},
	"COSEAES256CTR": {"HMAC-SHA384", 32, 32},
}

// KdfCase is one numeric comparison of a library session with the reference derivation.
type KdfCase struct {
	Kind    string `json:"kind"` // "kdf"
	Suite   string `json:"suite"`
	Cipher  string `json:"cipher"`
	LibRole string `json:"lib_role"` // owner | device
	Variant string `json:"variant"`  // plain | lz_lib_pub | lz_peer_pub | lz_secret | padded_peer_pub
	OK      bool   `json:"ok"`
	Detail  string `json:"detail,omitempty"`
	LBits   int    `json:"lbits"`
	CtxLen  int    `json:"ctxlen"`
	KinLen  int    `json:"kinlen"`
	Tries   int    `json:"tries,omitempty"`
	SEK     string `json:"sek,omitempty"`
	SVK     string `json:"svk,omitempty"`
	Replay  any    `json:"replay,omitempty"`
}

// fixedReader returns the given bytes first and random bytes afterwards.
type fixedReader struct{ b []byte }

func (r *fixedReader) Read(p []byte) (int, error) {
	if len(r.b) == 0 {
		return rand.Read(p)
	}
	n := copy(p, r.b)
	r.b = r.b[n:]
	if n < len(p) {
		m, err := rand.Read(p[n:])
		return n + m, err
	}
	return n, nil
}

func randBytes(n int) []byte {
	b := make([]byte, n)
	_, _ = rand.Read(b)
	return b
}

const maxTries = 20000

// dhExponentWithLeadingZeroPub searches a private exponent whose public value 2^x mod p has a
// leading zero byte (so its minimal big-endian encoding is shorter than p).
func dhExponentWithLeadingZeroPub(p *big.Int, n int) (x []byte, tries int) {
	plen := (p.BitLen() + 7) / 8
	two := big.NewInt(2)
	for tries = 1; tries <= maxTries; tries++ {
		x = randBytes(n)
		if len(new(big.Int).Exp(two, new(big.Int).SetBytes(x), p).Bytes()) < plen {
			return x, tries
		}
	}
	return nil, tries
}

func ecCoords(pub *ecdh.PublicKey) (x, y []byte) {
	b := pub.Bytes()
	n := (len(b) - 1) / 2
	return b[1 : 1+n], b[1+n:]
}

// KdfOne runs one exchange with the harness playing the peer of the library session and compares
// the library's SEK || SVK with RefKDF over the shared secret the harness computed itself.
func KdfOne(suite, cipher, libRole, variant string, ownerIdx int) (kc KdfCase) {
	kc = KdfCase{Kind: "kdf", Suite: suite, Cipher: cipher, LibRole: libRole, Variant: variant}
	defer func() {
		if r := recover(); r != nil {
			kc.OK = false
			kc.Detail = fmt.Sprint("panic: ", r)
		}
	}()
	cp := CipherTable[cipher]
	kc.LBits = (cp.KeyLen + cp.MacLen) * 8
	cid := CipherID(cipher)
	owner := OwnerKey(suite, ownerIdx)
	fam := Family(suite)
	var lib kex.Session
	var kin, ctxRand []byte
	var rd io.Reader = rand.Reader
	replay := map[string]string{}
	fail := func(f string, a ...any) KdfCase { kc.Detail = fmt.Sprintf(f, a...); kc.Replay = replay; return kc }

	switch fam {
	case "ecdh":
		curve := Curve(suite)
		var hPriv *ecdh.PrivateKey
		hRand := randBytes(RandLen(suite))
		newH := func() *ecdh.PrivateKey {
			k, err := curve.GenerateKey(rand.Reader)
			if err != nil {
				panic(err)
			}
			return k
		}
		if libRole == "owner" {
			var xA []byte
			var pa EcParam
			for kc.Tries = 1; ; kc.Tries++ {
				lib = kex.Suite(suite).New(nil, cid)
				x, err := lib.Parameter(rd, nil)
				if err != nil {
					return fail("library Parameter: %v", err)
				}
				xA = bytes.Clone(x)
				if pa, err = ParseEcParam(xA); err != nil {
					return fail("library xA does not parse: %v", err)
				}
				if variant != "lz_lib_pub" || pa.X[0] == 0 || pa.Y[0] == 0 || kc.Tries > maxTries {
					break
				}
			}
			if len(pa.Rand) != RandLen(suite) {
				return fail("library random has %d bytes", len(pa.Rand))
			}
			pubA, err := curve.NewPublicKey(pa.SEC1())
			if err != nil {
				return fail("library public value invalid: %v", err)
			}
			var z []byte
			for t := 1; ; t++ {
				hPriv = newH()
				if z, err = hPriv.ECDH(pubA); err != nil {
					return fail("harness ECDH: %v", err)
				}
				hx, hy := ecCoords(hPriv.PublicKey())
				if variant == "lz_secret" && z[0] != 0 && t < maxTries {
					continue
				}
				if variant == "lz_peer_pub" && hx[0] != 0 && hy[0] != 0 && t < maxTries {
					continue
				}
				kc.Tries += t - 1
				break
			}
			hx, hy := ecCoords(hPriv.PublicKey())
			xB := EcParam{X: hx, Y: hy, Rand: hRand}.Encode()
			replay["xA"], replay["xB"], replay["harness_priv"] = hex.EncodeToString(xA), hex.EncodeToString(xB), hex.EncodeToString(hPriv.Bytes())
			if err := lib.SetParameter(xB, nil); err != nil {
				return fail("library SetParameter: %v", err)
			}
			kin = append(append(append([]byte(nil), z...), hRand...), pa.Rand...) // Z || randB || randA
		} else {
			var xB []byte
			var pb EcParam
			var xA []byte
			for kc.Tries = 1; ; kc.Tries++ {
				hPriv = newH()
				hx, hy := ecCoords(hPriv.PublicKey())
				if variant == "lz_peer_pub" && hx[0] != 0 && hy[0] != 0 && kc.Tries < maxTries {
					continue
				}
				xA = EcParam{X: hx, Y: hy, Rand: hRand}.Encode()
				lib = kex.Suite(suite).New(bytes.Clone(xA), cid)
				x, err := lib.Parameter(rd, nil)
				if err != nil {
					return fail("library Parameter: %v", err)
				}
				xB = bytes.Clone(x)
				if pb, err = ParseEcParam(xB); err != nil {
					return fail("library xB does not parse: %v", err)
				}
				if variant == "lz_lib_pub" && pb.X[0] != 0 && pb.Y[0] != 0 && kc.Tries < maxTries {
					continue
				}
				pubB, err := curve.NewPublicKey(pb.SEC1())
				if err != nil {
					return fail("library public value invalid: %v", err)
				}
				z, err := hPriv.ECDH(pubB)
				if err != nil {
					return fail("harness ECDH: %v", err)
				}
				if variant == "lz_secret" && z[0] != 0 && kc.Tries < maxTries {
					continue
				}
				kin = append(append(append([]byte(nil), z...), pb.Rand...), hRand...) // Z || randB || randA
				break
			}
			if len(pb.Rand) != RandLen(suite) {
				return fail("library random has %d bytes", len(pb.Rand))
			}
			replay["xA"], replay["xB"], replay["harness_priv"] = hex.EncodeToString(xA), hex.EncodeToString(xB), hex.EncodeToString(hPriv.Bytes())
		}
	case "dh":
		p := Group(suite)
		plen := (p.BitLen() + 7) / 8
		two := big.NewInt(2)
		n := RandLen(suite)
		encode := func(v *big.Int) []byte {
			if variant == "padded_peer_pub" {
				return fixedBytes(v, plen)
			}
			return v.Bytes()
		}
		if libRole == "owner" {
			if variant == "lz_lib_pub" {
				x, t := dhExponentWithLeadingZeroPub(p, n)
				kc.Tries = t
				rd = &fixedReader{b: x}
			}
			lib = kex.Suite(suite).New(nil, cid)
			xA, err := lib.Parameter(rd, pubOf(owner))
			if err != nil {
				return fail("library Parameter: %v", err)
			}
			xA = bytes.Clone(xA)
			if variant == "lz_lib_pub" && len(xA) >= plen {
				return fail("expected a short public value from the chosen exponent, got %d bytes", len(xA))
			}
			A := new(big.Int).SetBytes(xA)
			var b, z *big.Int
			for t := 1; ; t++ {
				b = new(big.Int).SetBytes(randBytes(n))
				z = new(big.Int).Exp(A, b, p)
				if variant == "lz_secret" && len(z.Bytes()) == plen && t < maxTries {
					continue
				}
				if variant == "lz_peer_pub" && len(new(big.Int).Exp(two, b, p).Bytes()) == plen && t < maxTries {
					continue
				}
				kc.Tries += t
				break
			}
			xB := encode(new(big.Int).Exp(two, b, p))
			replay["xA"], replay["xB"], replay["harness_priv"] = hex.EncodeToString(xA), hex.EncodeToString(xB), hex.EncodeToString(b.Bytes())
			if err := lib.SetParameter(xB, owner); err != nil {
				return fail("library SetParameter: %v", err)
			}
			kin = fixedBytes(z, plen)
		} else {
			var a *big.Int
			for t := 1; ; t++ {
				a = new(big.Int).SetBytes(randBytes(n))
				if variant == "lz_peer_pub" && len(new(big.Int).Exp(two, a, p).Bytes()) == plen && t < maxTries {
					continue
				}
				kc.Tries = t
				break
			}
			A := new(big.Int).Exp(two, a, p)
			xA := encode(A)
			if variant == "lz_lib_pub" || variant == "lz_secret" {
				// choose the library's exponent: search b with the wanted property, feed it as randomness
				for t := 1; t <= maxTries; t++ {
					bb := randBytes(n)
					bi := new(big.Int).SetBytes(bb)
					okPub := len(new(big.Int).Exp(two, bi, p).Bytes()) < plen
					okSec := len(new(big.Int).Exp(A, bi, p).Bytes()) < plen
					if variant == "lz_lib_pub" && okPub || variant == "lz_secret" && okSec {
						rd = &fixedReader{b: bb}
						kc.Tries += t
						break
					}
				}
			}
			lib = kex.Suite(suite).New(bytes.Clone(xA), cid)
			xB, err := lib.Parameter(rd, pubOf(owner))
			if err != nil {
				return fail("library Parameter: %v", err)
			}
			xB = bytes.Clone(xB)
			replay["xA"], replay["xB"], replay["harness_priv"] = hex.EncodeToString(xA), hex.EncodeToString(xB), hex.EncodeToString(a.Bytes())
			z := new(big.Int).Exp(new(big.Int).SetBytes(xB), a, p)
			kin = fixedBytes(z, plen)
		}
	case "asym":
		n := RandLen(suite)
		lead := func() []byte {
			r := randBytes(n)
			if variant == "lz_lib_pub" || variant == "lz_peer_pub" || variant == "lz_secret" {
				r[0], r[1] = 0, 0
			}
			return r
		}
		if libRole == "owner" {
			if variant == "lz_lib_pub" {
				rd = &fixedReader{b: lead()}
			}
			lib = kex.Suite(suite).New(nil, cid)
			xA, err := lib.Parameter(rd, pubOf(owner))
			if err != nil {
				return fail("library Parameter: %v", err)
			}
			xA = bytes.Clone(xA)
			if len(xA) != n {
				return fail("library owner random has %d bytes, FDO fixes %d", len(xA), n)
			}
			rB := randBytes(n)
			if variant == "lz_secret" || variant == "lz_peer_pub" {
				rB = lead()
			}
			xB, err := oaepEncrypt(&owner.PublicKey, rB)
			if err != nil {
				return fail("harness OAEP: %v", err)
			}
			replay["xA"], replay["xB"], replay["device_random"] = hex.EncodeToString(xA), hex.EncodeToString(xB), hex.EncodeToString(rB)
			if err := lib.SetParameter(xB, owner); err != nil {
				return fail("library SetParameter: %v", err)
			}
			kin, ctxRand = rB, xA
		} else {
			xA := randBytes(n)
			if variant == "lz_peer_pub" {
				xA = lead()
			}
			if variant == "lz_lib_pub" || variant == "lz_secret" {
				rd = &fixedReader{b: lead()}
			}
			lib = kex.Suite(suite).New(bytes.Clone(xA), cid)
			xB, err := lib.Parameter(rd, pubOf(owner))
			if err != nil {
				return fail("library Parameter: %v", err)
			}
			xB = bytes.Clone(xB)
			rB, err := rsa.DecryptOAEP(sha256.New(), nil, owner, xB, nil)
			if err != nil {
				return fail("library xB does not open with OAEP-SHA256 under the owner key: %v", err)
			}
			if len(rB) != n {
				return fail("library device random has %d bytes, FDO fixes %d", len(rB), n)
			}
			replay["xA"], replay["xB"], replay["device_random"] = hex.EncodeToString(xA), hex.EncodeToString(xB), hex.EncodeToString(rB)
			kin, ctxRand = rB, xA
		}
	}
	kc.KinLen, kc.CtxLen = len(kin), len(ctxRand)
	ref, err := RefKDF(cp.Prf, kin, ctxRand, kc.LBits)
	if err != nil {
		return fail("reference KDF: %v", err)
	}
	sek, svk, ok := Keys(lib)
	if !ok {
		return fail("unknown session type %T", lib)
	}
	kc.SEK, kc.SVK = hex.EncodeToString(sek), hex.EncodeToString(svk)
	if !bytes.Equal(sek, ref[:cp.KeyLen]) || !bytes.Equal(svk, ref[cp.KeyLen:]) {
		replay["kin"], replay["ctx"] = hex.EncodeToString(kin), hex.EncodeToString(ctxRand)
		replay["ref"] = hex.EncodeToString(ref)
		return fail("library SEK||SVK = %x||%x, reference KDF(%s, kin, ctx, L=%d) = %x", sek, svk, cp.Prf, kc.LBits, ref)
	}
	kc.OK = true
	return kc
}

// KdfJob selects one comparison.
type KdfJob struct {
	Suite, Cipher, LibRole, Variant string
	OwnerIdx                        int
}

// KdfRun executes jobs in parallel and appends one JSON line per case to outPath.
func KdfRun(jobs []KdfJob, outPath string, workers int) error {
	if workers <= 0 {
		workers = runtime.NumCPU()
	}
	f, err := os.OpenFile(outPath, os.O_CREATE|os.O_WRONLY|os.O_APPEND, 0o644)
	if err != nil {
		return err
	}
	defer f.Close()
	enc := json.NewEncoder(f)
	var mu sync.Mutex
	ch := make(chan KdfJob)
	var wg sync.WaitGroup
	for w := 0; w < workers; w++ {
		wg.Add(1)
		go func() {
			defer wg.Done()
			for j := range ch {
				r := KdfOne(j.Suite, j.Cipher, j.LibRole, j.Variant, j.OwnerIdx)
				mu.Lock()
				_ = enc.Encode(r)
				mu.Unlock()
			}
		}()
	}
	for _, j := range jobs {
		ch <- j
	}
	close(ch)
	wg.Wait()
	return nil
}

// GroupCheck reports whether the harness' RFC 3526 primes (computed from pi) are prime-shaped
// (p = 3 mod 4, top and bottom 64 bits all ones), a self-test of the reference.
func GroupCheck() error {
	for _, s := range []string{"DHKEXid14", "DHKEXid15"} {
		p := Group(s)
		b := p.Bytes()
		for i := 0; i < 8; i++ {
			if b[i] != 0xff || b[len(b)-1-i] != 0xff {
				return fmt.Errorf("%s: computed prime does not have the RFC 3526 shape", s)
			}
		}
		if !p.ProbablyPrime(8) {
			return fmt.Errorf("%s: computed modulus is not prime", s)
		}
		q := new(big.Int).Rsh(p, 1)
		if !q.ProbablyPrime(4) {
			return fmt.Errorf("%s: computed modulus is not a safe prime", s)
		}
	}
	return nil
}
