package kexx

import (
	"bytes"
	"crypto/rand"
	"encoding/hex"
	"encoding/json"
	"fmt"
	mrand "math/rand"
	"os"
	"runtime"
	"sort"
	"sync"

	"github.com/fido-device-onboard/go-fdo/cbor"
	"github.com/fido-device-onboard/go-fdo/kex"

	"verifharness/world"
)

// Step is one element of a behaviour of spec/Kex_Gen.tla (the first element is the Config record).
type Step struct {
	Act    string `json:"act"`
	Arg    string `json:"arg,omitempty"`
	Res    string `json:"res,omitempty"` // ok | err | either
	Ast    string `json:"ast,omitempty"`
	Akeys  bool   `json:"akeys"`
	Bst    string `json:"bst,omitempty"`
	Bkeys  bool   `json:"bkeys"`
	Agree  bool   `json:"agree"`
	KeyLen int    `json:"keylen,omitempty"`
	MacLen int    `json:"mackeylen,omitempty"`
	// Config record
	Suite  string `json:"suite,omitempty"`
	Cipher string `json:"cipher,omitempty"`
	Prf    string `json:"prf,omitempty"`
	LBits  int    `json:"lbits,omitempty"`
}

// Script is a behaviour plus replay parameters chosen by the check.
type Script struct {
	ID    int    `json:"id"`
	Mode  string `json:"mode"` // bin | sqlite
	Seed  int64  `json:"seed"`
	Steps []Step `json:"steps"`
}

// Mismatch is one disagreement between the specification's expectation and the real sessions.
type Mismatch struct {
	Step     int    `json:"step"`
	Act      string `json:"act"`
	Arg      string `json:"arg,omitempty"`
	Field    string `json:"field"`
	Want     string `json:"want"`
	Got      string `json:"got"`
	Instance string `json:"instance,omitempty"`
	Detail   string `json:"detail,omitempty"`
	InputHex string `json:"input_hex,omitempty"`
}

// Result of one script.
type Result struct {
	Kind       string            `json:"kind"`
	ID         int               `json:"id"`
	Suite      string            `json:"suite"`
	Cipher     string            `json:"cipher"`
	Mode       string            `json:"mode"`
	Shape      string            `json:"shape"`
	Runs       int               `json:"runs"`      // concrete executions (instances of the degenerate class)
	Completed  bool              `json:"completed"` // both sides derived keys
	Mismatches []Mismatch        `json:"mismatches,omitempty"`
	Either     map[string]string `json:"either,omitempty"` // observed outcome of unjudged classes, per instance
	SEK        string            `json:"sek,omitempty"`
	SVK        string            `json:"svk,omitempty"`
}

func hasKeys(s kex.Session) bool {
	if s == nil {
		return false
	}
	sek, _, _ := Keys(s)
	return len(sek) > 0
}

func agree(a, b kex.Session) bool {
	if !hasKeys(a) || !hasKeys(b) {
		return false
	}
	sa, va, _ := Keys(a)
	sb, vb, _ := Keys(b)
	return bytes.Equal(sa, sb) && bytes.Equal(va, vb)
}

// crossCrypt checks that what one side encrypts the other side decrypts to the same plaintext.
func crossCrypt(a, b kex.Session) error {
	payload := []any{"verif-c14", []byte{0, 1, 2, 3, 0xff}, 42}
	want, _ := cbor.Marshal(payload)
	for _, dir := range [][2]kex.Session{{a, b}, {b, a}} {
		enc, err := dir[0].Encrypt(rand.Reader, payload)
		if err != nil {
			return fmt.Errorf("encrypt: %w", err)
		}
		var buf bytes.Buffer
		if err := cbor.NewEncoder(&buf).Encode(enc); err != nil {
			return err
		}
		got, err := dir[1].Decrypt(rand.Reader, &buf)
		if err != nil {
			return fmt.Errorf("decrypt: %w", err)
		}
		if !bytes.Equal(got, want) {
			return fmt.Errorf("decrypted plaintext differs")
		}
	}
	return nil
}

// runOnce executes the script with one concrete instance choice; inst < 0 means "no degenerate
// step". It returns the mismatches and, for either-classes, the observed outcome.
func runOnce(sc Script, st *world.Store, instIdx int, rng *mrand.Rand, full bool) (res Result, ninst int) {
	cfg := sc.Steps[0]
	res = Result{Kind: "script", ID: sc.ID, Suite: cfg.Suite, Cipher: cfg.Cipher, Mode: sc.Mode, Either: map[string]string{}}
	suite := kex.Suite(cfg.Suite)
	cid := CipherID(cfg.Cipher)
	owner := OwnerKey(cfg.Suite, int(sc.Seed&3))
	var pers persister
	if sc.Mode == "sqlite" {
		p, err := newSQLPersist(st)
		if err != nil {
			res.Mismatches = append(res.Mismatches, Mismatch{Field: "harness", Want: "token", Got: err.Error()})
			return res, 0
		}
		pers = p
	} else {
		pers = &binPersist{}
	}
	defer pers.Close()

	var sessA, sessB kex.Session
	var xA, xB []byte
	var keptSEK, keptSVK []byte
	instName := ""
	mm := func(i int, s Step, field, want, got, detail string, input []byte) {
		m := Mismatch{Step: i, Act: s.Act, Arg: s.Arg, Field: field, Want: want, Got: got, Instance: instName, Detail: detail}
		if input != nil {
			if len(input) > 600 {
				input = input[:600]
			}
			m.InputHex = hex.EncodeToString(input)
		}
		res.Mismatches = append(res.Mismatches, m)
	}
	// honestXB produces a well-formed xB for the current xA from a throw-away device session.
	honestXB := func() []byte {
		b := suite.New(bytes.Clone(xA), cid)
		x, err := b.Parameter(rand.Reader, pubOf(owner))
		if err != nil {
			panic("throw-away device session failed: " + err.Error())
		}
		return x
	}
	for i := 1; i < len(sc.Steps); i++ {
		s := sc.Steps[i]
		var got, detail string
		var input []byte
		switch s.Act {
		case "ParamA":
			got, detail = guarded(func() error {
				sessA = suite.New(nil, cid)
				var err error
				xA, err = sessA.Parameter(rand.Reader, pubOf(owner))
				xA = bytes.Clone(xA)
				return err
			})
		case "Persist":
			got, detail = guarded(func() error { return pers.Persist(cfg.Suite, sessA) })
		case "Restore":
			got, detail = guarded(func() error {
				s2, err := pers.Restore()
				if err != nil {
					return err
				}
				sessA = s2
				return nil
			})
		case "NewB":
			got, detail = guarded(func() error { sessB = suite.New(bytes.Clone(xA), cid); return nil })
		case "NewBDeg":
			insts := Instances(s.Arg, cfg.Suite, xA, nil, owner, rng, full)
			ninst = len(insts)
			if ninst == 0 {
				return res, 0
			}
			in := insts[instIdx%ninst]
			instName, input = in.Name, in.Val
			got, detail = guarded(func() error { sessB = suite.New(in.Val, cid); return nil })
		case "ParamB":
			got, detail = guarded(func() error {
				var err error
				xB, err = sessB.Parameter(rand.Reader, pubOf(owner))
				xB = bytes.Clone(xB)
				return err
			})
		case "SetParam":
			got, detail = guarded(func() error { return sessA.SetParameter(bytes.Clone(xB), owner) })
		case "SetParamDeg":
			insts := Instances(s.Arg, cfg.Suite, honestXB(), xA, owner, rng, full)
			ninst = len(insts)
			if ninst == 0 {
				return res, 0
			}
			in := insts[instIdx%ninst]
			instName, input = in.Name, in.Val
			got, detail = guarded(func() error { return sessA.SetParameter(in.Val, owner) })
		case "SecondSetParam":
			keptSEK, keptSVK, _ = Keys(sessA)
			keptSEK, keptSVK = bytes.Clone(keptSEK), bytes.Clone(keptSVK)
			x := bytes.Clone(xB)
			if s.Arg == "fresh" {
				x = honestXB()
			}
			input = x
			got, detail = guarded(func() error { return sessA.SetParameter(x, owner) })
		default:
			mm(i, s, "harness", "known action", s.Act, "", nil)
			return res, ninst
		}
		if got == "panic" {
			mm(i, s, "panic", s.Res, "panic", detail, input)
			return res, ninst
		}
		if s.Res == "either" {
			// unjudged class: record what the code does and stop (nothing further is specified)
			out := got
			if s.Act == "SetParamDeg" && hasKeys(sessA) || s.Act == "ParamB" && hasKeys(sessB) {
				out += "+keys"
			}
			res.Either[s.Act+":"+argOf(sc, i)+":"+instName] = out
			return res, ninst
		}
		if got != s.Res {
			mm(i, s, "res", s.Res, got, detail, input)
			if s.Act == "Restore" || s.Act == "Persist" || s.Act == "ParamA" {
				return res, ninst
			}
		}
		if ak := hasKeys(sessA); ak != s.Akeys {
			mm(i, s, "akeys", fmt.Sprint(s.Akeys), fmt.Sprint(ak), "", input)
		}
		if bk := hasKeys(sessB); bk != s.Bkeys {
			mm(i, s, "bkeys", fmt.Sprint(s.Bkeys), fmt.Sprint(bk), "", input)
		}
		if ag := agree(sessA, sessB); ag != s.Agree {
			mm(i, s, "agree", fmt.Sprint(s.Agree), fmt.Sprint(ag), "", nil)
		}
		for _, side := range []struct {
			n string
			s kex.Session
			k bool
		}{{"A", sessA, s.Akeys}, {"B", sessB, s.Bkeys}} {
			if side.k && hasKeys(side.s) {
				sek, svk, _ := Keys(side.s)
				if len(sek) != s.KeyLen {
					mm(i, s, "len(SEK_"+side.n+")", fmt.Sprint(s.KeyLen), fmt.Sprint(len(sek)), "", nil)
				}
				if len(svk) != s.MacLen {
					mm(i, s, "len(SVK_"+side.n+")", fmt.Sprint(s.MacLen), fmt.Sprint(len(svk)), "", nil)
				}
			}
		}
		if s.Act == "SecondSetParam" {
			sek, svk, _ := Keys(sessA)
			if !bytes.Equal(sek, keptSEK) || !bytes.Equal(svk, keptSVK) {
				mm(i, s, "keys-after-second-setparam", "unchanged", "changed", detail, input)
			}
		}
		if s.Agree && len(res.Mismatches) == 0 {
			if err := crossCrypt(sessA, sessB); err != nil {
				mm(i, s, "cross-crypt", "ok", err.Error(), "", nil)
			}
		}
		if len(res.Mismatches) > 0 {
			// the first step that leaves the specification ends the replay (later steps would only
			// repeat the same disagreement)
			return res, ninst
		}
	}
	if agree(sessA, sessB) {
		res.Completed = true
		sek, svk, _ := Keys(sessA)
		res.SEK, res.SVK = hex.EncodeToString(sek), hex.EncodeToString(svk)
	}
	return res, ninst
}

func argOf(sc Script, i int) string {
	for j := i; j >= 1; j-- {
		if sc.Steps[j].Arg != "" {
			return sc.Steps[j].Arg
		}
	}
	return ""
}

// Shape renders the step list of a script.
func Shape(sc Script) string {
	out := ""
	for i, s := range sc.Steps[1:] {
		if i > 0 {
			out += " "
		}
		out += s.Act
		if s.Arg != "" {
			out += ":" + s.Arg
		}
	}
	return out
}

// Replay runs all scripts (each degenerate script once per concrete instance, capped) and writes
// one JSON result per line.
func Replay(scripts []Script, outPath string, full bool, maxInst, workers int) error {
	if workers <= 0 {
		workers = runtime.NumCPU()
	}
	f, err := os.Create(outPath)
	if err != nil {
		return err
	}
	defer f.Close()
	var mu sync.Mutex
	enc := json.NewEncoder(f)
	jobs := make(chan Script)
	var wg sync.WaitGroup
	for w := 0; w < workers; w++ {
		wg.Add(1)
		go func() {
			defer wg.Done()
			st := world.OpenStore("kexx", nil)
			defer st.Close()
			for sc := range jobs {
				rng := mrand.New(mrand.NewSource(sc.Seed))
				total := Result{}
				first, n := runOnce(sc, st, 0, rng, full)
				total = first
				total.Runs = 1
				if n > 1 {
					// visit the instances of the class: all of them up to the cap, starting at a
					// seed-dependent offset so that different scripts cover different instances
					k := n
					if maxInst > 0 && k > maxInst {
						k = maxInst
					}
					off := int(sc.Seed % int64(n))
					total = Result{Kind: "script", ID: sc.ID, Suite: first.Suite, Cipher: first.Cipher, Mode: sc.Mode, Either: map[string]string{}}
					total.Runs = 0
					for j := 0; j < k; j++ {
						rng := mrand.New(mrand.NewSource(sc.Seed)) // same expansion, another member
						r, _ := runOnce(sc, st, off+j, rng, full)
						total.Runs++
						total.Mismatches = append(total.Mismatches, r.Mismatches...)
						for kk, v := range r.Either {
							total.Either[kk] = v
						}
					}
				}
				total.Shape = Shape(sc)
				mu.Lock()
				_ = enc.Encode(total)
				mu.Unlock()
			}
		}()
	}
	sort.SliceStable(scripts, func(i, j int) bool { return weight(scripts[i]) > weight(scripts[j]) })
	for _, sc := range scripts {
		jobs <- sc
	}
	close(jobs)
	wg.Wait()
	return nil
}

// weight orders slow configurations first (better packing of the worker pool).
func weight(sc Script) int {
	switch sc.Steps[0].Suite {
	case "DHKEXid15":
		return 5
	case "ASYMKEX3072":
		return 4
	case "DHKEXid14", "ASYMKEX2048":
		return 2
	}
	return 1
}
