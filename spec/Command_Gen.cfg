SPECIFICATION GenSpec
CONSTANTS
  MaxCmds = 1
  Policies = {"none", "wrap", "refuse"}
  Names = {"sh", "empty", "nosuch"}
  Progs = {"none", "o1", "e1", "obig", "ebig", "omany", "mix", "otail"}
  Ends = {"exit0", "exitN", "selfkill", "sigtrap", "sigkill", "timeout"}
  ArgUnits = {1, 2, 3}
  DevCap = 2
  OwnCap = 2
  Requests = {"-", "o", "e", "oe", "m", "mo", "me", "moe"}
  ResetBetween = TRUE
INVARIANTS Emit
