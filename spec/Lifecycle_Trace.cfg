SPECIFICATION TraceSpec
CONSTANTS
  MaxSteps = 1000
  MaxCuts = 1000
  Ext = TRUE
  AIOs = {FALSE}
INVARIANTS AfterDI AfterTO2 FailedRunNoCred AIOReady StaleBlobRefused RegisteredByOwner HeldNotServed
PROPERTIES ReuseChangesNothing Atomic CredOnlyAfterDone2 LocateOnlyLive RestoreGivesBack FailedResaleKeepsVoucher
POSTCONDITION TraceAccepted
