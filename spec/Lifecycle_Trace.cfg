SPECIFICATION TraceSpec
CONSTANTS
  MaxSteps = 1000
  MaxCuts = 1000
INVARIANTS AfterDI AfterTO2 FailedRunNoCred
PROPERTIES ReuseChangesNothing Atomic CredOnlyAfterDone2
POSTCONDITION TraceAccepted
