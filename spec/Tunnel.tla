------------------------------- MODULE Tunnel -------------------------------
(***************************************************************************)
(* The encrypted tunnel of TO2 (messages 65..71) as go-fdo implements it:  *)
(* kex/crypter.go SessionCrypter.Encrypt/Decrypt over cose.Encrypt0 and    *)
(* cose.Mac0, driven by http/handler.go (server) and http/transport.go     *)
(* (device).  Property C05.                                                *)
(*                                                                         *)
(* Per session the messages 65 (owner->device), 66 (device->owner), ...,   *)
(* 71 are sent in order, the pair 68/69 any number of times (service info  *)
(* rounds).  One message = three actions: Encrypt (the honest *)
(* sender protects plaintext pt under the session keys and a fresh IV),    *)
(* Wire (the network adversary may replace the object in flight by one of  *)
(* the classes below), Decrypt (the receiver accepts a plaintext or        *)
(* rejects; a rejection fails the run).                                    *)
(*                                                                         *)
(* Cryptography is symbolic: Ct(k, iv, pt, aad) opens only under k with    *)
(* the same iv (and aad for AEAD), Mac(k, body) verifies only over the     *)
(* same body.  A wire object is [form, alg, iv, ct, tag, benign]:          *)
(*   AEAD suites:            #6.16([{1: alg}, {5: iv}, ct])   form "enc0"  *)
(*   encrypt-then-MAC suites: #6.17([{1: mac}, {}, bstr [h'', {1: alg,     *)
(*                            5: iv}, ct], tag])              form "mac0"  *)
(* BareEncrypt0Accepted names the deviation of today's code (a bare        *)
(* COSE_Encrypt0 is decrypted also under an encrypt-then-MAC suite); the   *)
(* checked design has it FALSE.                                            *)
(***************************************************************************)
EXTENDS Naturals, Sequences, FiniteSets, TLC

CONSTANTS
    Ciphers,                \* subset of the seven cipher suites
    Sessions,               \* concurrent TO2 sessions with the same suite
    AdvSessions,            \* sessions whose messages the adversary rewrites
    Classes,                \* adversary classes in play
    MaxMut,                 \* mutations per session (model checking bound)
    MaxRounds,              \* service-info rounds (68/69 pairs) per session (model checking bound)
    BareEncrypt0Accepted    \* BOOLEAN, see above

VARIABLES
    cipher,     \* the negotiated cipher suite
    pos,        \* [Sessions -> 65..72] next message type (72: run complete)
    flight,     \* [Sessions -> message in flight or NoMsg]
    protected,  \* set of [sess, type, pt, obj] the honest senders protected
    onWire,     \* set of [sess, type, obj] honest senders put on the wire
    delivered,  \* set of [sess, type, pt, obj, at] receivers accepted
    failed,     \* [Sessions -> 0 or the session-local time of the first rejection]
    nmut,       \* [Sessions -> Nat]
    clock,      \* [Sessions -> Nat] session-local time
    last        \* last action and outcome (observable)

vars == <<cipher, pos, flight, protected, onWire, delivered, failed, nmut, clock, last>>

AllCiphers == {"A128GCM", "A192GCM", "A256GCM", "COSEAES128CBC", "COSEAES128CTR", "COSEAES256CBC", "COSEAES256CTR"}
AEAD == {"A128GCM", "A192GCM", "A256GCM"}
Form(c) == IF c \in AEAD THEN "enc0" ELSE "mac0"
Dir(t) == IF t % 2 = 1 THEN "o2d" ELSE "d2o"

AllClasses == {"flip_ct", "flip_iv", "flip_alg", "flip_tag", "strip_mac0", "strip_mac0+flip_ct", "strip_mac0+flip_iv",
               "strip_mac0+iv_len", "strip_mac0+empty_ct", "strip_mac0+truncate", "wrap_mac0", "retag", "drop_iv", "iv_len", "empty_ct", "truncate", "substitute", "plaintext", "bit_any",
               "short_tag+flip_ct", "short_tag+flip_iv"}
(* classes that need a MAC wrapper / must not have one *)
Applicable(c, cls) ==
    CASE cls \in {"flip_tag", "strip_mac0", "strip_mac0+flip_ct", "strip_mac0+flip_iv",
                  "strip_mac0+iv_len", "strip_mac0+empty_ct", "strip_mac0+truncate",
                  "short_tag+flip_ct", "short_tag+flip_iv"} -> c \notin AEAD
      [] cls = "wrap_mac0" -> c \in AEAD
      [] OTHER -> TRUE

-----------------------------------------------------------------------------
NoMsg == [t |-> "nomsg"]
NoTag == [t |-> "notag"]
NoIV  == [t |-> "noiv"]
IV(s, n) == [t |-> "iv", s |-> s, n |-> n]
Pt(s, n) == [t |-> "pt", s |-> s, n |-> n]
Garbage == [t |-> "garbage"]
Ct(k, iv, pt, aad) == [t |-> "ct", key |-> k, iv |-> iv, pt |-> pt, aad |-> aad]
Body(o) == <<o.alg, o.iv, o.ct>>
Mac(k, body) == [t |-> "mac", key |-> k, over |-> body]

(* kex/crypter.go Encrypt *)
Seal(c, s, iv, pt) ==
    IF c \in AEAD
    THEN [form |-> "enc0", alg |-> c, iv |-> iv, ct |-> Ct(s, iv, pt, c), tag |-> NoTag, benign |-> FALSE]
    ELSE LET ct == Ct(s, iv, pt, "none")
         IN [form |-> "mac0", alg |-> c, iv |-> iv, ct |-> ct, tag |-> Mac(s, <<c, iv, ct>>), benign |-> FALSE]
Plain(pt) == [form |-> "plain", alg |-> "none", iv |-> NoIV, ct |-> [t |-> "clear", pt |-> pt], tag |-> NoTag, benign |-> FALSE]

(* the adversary's rewriting of an object in flight *)
Mutants(cls, o, others) ==
    CASE cls = "flip_ct"            -> {[o EXCEPT !.ct = [t |-> "garbled", of |-> o.ct]]}
      [] cls = "flip_iv"            -> {[o EXCEPT !.iv = [t |-> "flipped", of |-> o.iv]]}
      [] cls = "flip_alg"           -> {[o EXCEPT !.alg = "other"]}
      [] cls = "flip_tag"           -> {[o EXCEPT !.tag = [t |-> "badtag"]]}
      \* the MAC value shortened or emptied (a prefix of the genuine tag) and the protected content altered
      [] cls = "short_tag+flip_ct"  -> {[o EXCEPT !.tag = [t |-> "badtag"], !.ct = [t |-> "garbled", of |-> o.ct]]}
      [] cls = "short_tag+flip_iv"  -> {[o EXCEPT !.tag = [t |-> "badtag"], !.iv = [t |-> "flipped", of |-> o.iv]]}
      [] cls = "strip_mac0"         -> {[o EXCEPT !.form = "enc0", !.tag = NoTag]}
      [] cls = "strip_mac0+flip_ct" -> {[o EXCEPT !.form = "enc0", !.tag = NoTag, !.ct = [t |-> "garbled", of |-> o.ct]]}
      [] cls = "strip_mac0+flip_iv" -> {[o EXCEPT !.form = "enc0", !.tag = NoTag, !.iv = [t |-> "flipped", of |-> o.iv]]}
      [] cls = "strip_mac0+iv_len"  -> {[o EXCEPT !.form = "enc0", !.tag = NoTag, !.iv = [t |-> "badlen", of |-> o.iv]]}
      [] cls = "strip_mac0+empty_ct" -> {[o EXCEPT !.form = "enc0", !.tag = NoTag, !.ct = [t |-> "emptyct"]]}
      [] cls = "strip_mac0+truncate" -> {[o EXCEPT !.form = "enc0", !.tag = NoTag, !.ct = [t |-> "truncated", of |-> o.ct]]}
      [] cls = "wrap_mac0"          -> {[o EXCEPT !.form = "mac0", !.tag = [t |-> "forged"]]}
      [] cls = "retag"              -> {[o EXCEPT !.form = "mismatch"]}      \* tag number swapped, body unchanged
      [] cls = "drop_iv"            -> {[o EXCEPT !.iv = NoIV]}
      [] cls = "iv_len"             -> {[o EXCEPT !.iv = [t |-> "badlen", of |-> o.iv]]}
      [] cls = "empty_ct"           -> {[o EXCEPT !.ct = [t |-> "emptyct"]]}
      [] cls = "truncate"           -> {[o EXCEPT !.ct = [t |-> "truncated", of |-> o.ct]], [o EXCEPT !.form = "cut"]}
      [] cls = "substitute"         -> others
      [] cls = "plaintext"          -> {Plain(o.ct.pt)}
      [] cls = "bit_any"            -> {[o EXCEPT !.ct = [t |-> "garbled", of |-> o.ct]], [o EXCEPT !.iv = [t |-> "flipped", of |-> o.iv]],
                                        [o EXCEPT !.alg = "other"], [o EXCEPT !.form = "mismatch"], [o EXCEPT !.benign = TRUE]}
                                       \cup (IF o.tag = NoTag THEN {} ELSE {[o EXCEPT !.tag = [t |-> "badtag"]]})
      [] OTHER                      -> {}

-----------------------------------------------------------------------------
(* kex/crypter.go Decrypt + cose/encrypt.go Decrypt under the keys of session s *)
Opens(c, s, o) == o.ct.t = "ct" /\ o.ct.key = s /\ o.ct.iv = o.iv /\ (c \in AEAD => o.ct.aad = o.alg)
TagOK(s, o)    == o.tag = Mac(s, Body(o))
FormOK(c, o)   == o.form = Form(c) \/ (BareEncrypt0Accepted /\ o.form = "enc0")

Reject     == [v |-> "reject", pt |-> NoMsg]
Accept(pt) == [v |-> "accept", pt |-> pt]

Dec(c, s, o) ==
    IF ~FormOK(c, o) \/ o.alg # c THEN Reject
    ELSE IF o.form = "mac0" /\ ~TagOK(s, o) THEN Reject
    ELSE IF Opens(c, s, o) THEN Accept(o.ct.pt)
    ELSE IF c \in AEAD THEN Reject                               \* the AEAD tag fails
    ELSE IF o.iv.t \in {"noiv", "badlen"} \/ o.ct.t \in {"emptyct", "truncated"} THEN Reject
    ELSE Accept(Garbage)       \* CTR/CBC have no integrity of their own: reachable only without the MAC

-----------------------------------------------------------------------------
Init ==
    /\ cipher \in Ciphers
    /\ pos = [s \in Sessions |-> 65]
    /\ flight = [s \in Sessions |-> NoMsg]
    /\ protected = {} /\ onWire = {} /\ delivered = {}
    /\ failed = [s \in Sessions |-> 0]
    /\ nmut = [s \in Sessions |-> 0]
    /\ clock = [s \in Sessions |-> 1]
    /\ last = [act |-> "init"]

(* the honest sender protects the next message (type ty) under a fresh IV; n identifies the message *)
Rounds(s) == Cardinality({d \in delivered : d.sess = s /\ d.type = 69})
Encrypt(s, ty) ==
    /\ failed[s] = 0 /\ flight[s] = NoMsg /\ pos[s] <= 71
    /\ ty = pos[s] \/ (pos[s] = 70 /\ ty = 68 /\ Rounds(s) < MaxRounds)     \* another service-info round
    /\ LET n  == clock[s]
           iv == IV(s, n)
           pt == Pt(s, n)
           o  == Seal(cipher, s, iv, pt)
       IN /\ flight' = [flight EXCEPT ![s] = [t |-> "msg", type |-> ty, n |-> n, pt |-> pt, obj |-> o, mut |-> "none"]]
          /\ protected' = protected \cup {[sess |-> s, type |-> ty, pt |-> pt, obj |-> o]}
          /\ onWire' = onWire \cup {[sess |-> s, type |-> ty, obj |-> o]}
          /\ last' = [act |-> "enc", sess |-> s, type |-> ty, dir |-> Dir(ty), form |-> o.form, iv |-> iv]
    /\ clock' = [clock EXCEPT ![s] = @ + 1]
    /\ UNCHANGED <<cipher, pos, delivered, failed, nmut>>

(* the objects other sessions (same suite) send for the same message type *)
Others(s, n) == {Seal(cipher, s2, IV(s2, n), Pt(s2, n)) : s2 \in Sessions \ {s}}

Wire(s, cls) ==
    /\ s \in AdvSessions /\ cls \in Classes /\ Applicable(cipher, cls)
    /\ flight[s] # NoMsg /\ flight[s].mut = "none" /\ nmut[s] < MaxMut
    /\ \E o2 \in Mutants(cls, flight[s].obj, Others(s, flight[s].n)) :
          flight' = [flight EXCEPT ![s].obj = o2, ![s].mut = cls]
    /\ nmut' = [nmut EXCEPT ![s] = @ + 1]
    /\ last' = [act |-> "wire", sess |-> s, mut |-> cls]
    /\ UNCHANGED <<cipher, pos, protected, onWire, delivered, failed, clock>>

(* the receiver's verdict r on the object in flight; a rejection fails the run (the device returns *)
(* an error / the server answers 255 and kills the token)                                          *)
DecryptAs(s, r) ==
    /\ flight[s] # NoMsg
    /\ LET m == flight[s]
       IN IF r.v = "accept"
          THEN /\ delivered' = delivered \cup {[sess |-> s, type |-> m.type, pt |-> r.pt, obj |-> m.obj, at |-> clock[s]]}
               /\ pos' = [pos EXCEPT ![s] = m.type + 1]
               /\ UNCHANGED failed
               /\ last' = [act |-> "dec", sess |-> s, outcome |-> "accept", same |-> (r.pt = m.pt), mut |-> m.mut]
          ELSE /\ failed' = [failed EXCEPT ![s] = clock[s]]
               /\ UNCHANGED <<delivered, pos>>
               /\ last' = [act |-> "dec", sess |-> s, outcome |-> "reject", same |-> FALSE, mut |-> m.mut]
    /\ flight' = [flight EXCEPT ![s] = NoMsg]
    /\ clock' = [clock EXCEPT ![s] = @ + 1]
    /\ UNCHANGED <<cipher, protected, onWire, nmut>>

Decrypt(s) == flight[s] # NoMsg /\ DecryptAs(s, Dec(cipher, s, flight[s].obj))

Next == \E s \in Sessions : (\E ty \in 65..71 : Encrypt(s, ty)) \/ Decrypt(s) \/ \E cls \in Classes : Wire(s, cls)

Spec == Init /\ [][Next]_vars

MCView == <<cipher, pos, flight, protected, onWire, delivered, failed, nmut>>

-----------------------------------------------------------------------------
TypeOK == cipher \in AllCiphers /\ \A s \in Sessions : pos[s] \in 65..72

(* an accepted plaintext is one the sender protected under the same session's keys (property)   *)
DecryptSound ==
    \A d \in delivered : \E m \in protected : m.sess = d.sess /\ m.type = d.type /\ m.pt = d.pt
(* ... and, in the design, only unmodified objects are accepted (up to re-encodings that do not *)
(* change any field).  Stricter than the property: an implementation that accepts a rewrapped   *)
(* object with identical content is reported as lenient, not as a violation.                    *)
DecryptStrict ==
    \A d \in delivered : \E m \in protected :
        m.sess = d.sess /\ m.type = d.type /\ m.pt = d.pt /\ [d.obj EXCEPT !.benign = FALSE] = m.obj
(* every honest wire object of types 65..71 has the form the cipher suite fixes, never plaintext *)
FormPinned == \A w \in onWire : w.type >= 65 => w.obj.form = Form(cipher)
NoPlaintextOnWire == \A w \in onWire : w.obj.form # "plain" /\ w.obj.ct.t = "ct"
(* pairwise distinct IVs per session *)
FreshIV == \A w1, w2 \in onWire : (w1 # w2 /\ w1.sess = w2.sess) => w1.obj.iv # w2.obj.iv
(* a rejection fails the run: nothing is accepted or sent in that session afterwards *)
RejectFailsRun ==
    \A s \in Sessions : failed[s] # 0 =>
        /\ flight[s] = NoMsg
        /\ \A d \in delivered : d.sess = s => d.at < failed[s]
(* unmodified messages are accepted (the tunnel works) *)
HonestAccepted == last.act = "dec" /\ last.mut = "none" => last.outcome = "accept" /\ last.same

=============================================================================
