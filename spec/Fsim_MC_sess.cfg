SPECIFICATION Spec
CONSTANTS
  Modules = {"download", "upload", "wget"}
  MaxLen = 3
  ChunkLens = {2}
  Deltas = {1, 2}
  MaxXfers = 3
  Servers = {"cl", "nocl", "flushed", "clsrc"}
  Musts = {FALSE, TRUE}
  ResetOnRefusal = TRUE
INVARIANTS TypeOK SuccessIdentical MismatchFails NeverPartial HonestSucceeds CorruptFails IdleAfterFinalize IdleWhenContinuing PlacedIsSuccess
