SPECIFICATION GenSpec
CONSTANTS
  Modules = {"download", "upload", "wget"}
  MaxLen = 9
  ChunkLens = {2, 3}
  Deltas = {1, 3}
  MaxXfers = 1
  Servers = {"cl", "nocl", "flushed", "close", "clsrc", "redirect"}
  Musts = {FALSE}
  ResetOnRefusal = TRUE
INVARIANTS Emit
