SPECIFICATION GenSpec
CONSTANTS
  Modules = {"download", "upload", "wget"}
  MaxLen = 9
  ChunkLens = {2, 3}
  Deltas = {1, 3}
INVARIANTS Emit
