\* C12 quick: verdict table, 8 majors x 9 additional-information classes = 72 representatives per byte (5 257 prefixes, 378 576 strings) + shapes
SPECIFICATION TabSpec
CONSTANTS
  AIs = {0, 1, 2, 23, 24, 25, 27, 28, 31}
  Ints <- DeepInts
  Strs <- DeepStrs
  Tags <- DeepTags
  Simples <- NoSimples
  MaxStack = 1
  MaxNodes = 1
  MaxDepth = 1
  MaxArr = 0
  MaxPairs = 0
  AllowWrap = FALSE
INVARIANTS Emit ItemLenStable
