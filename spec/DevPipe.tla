------------------------------- MODULE DevPipe -------------------------------
(***************************************************************************)
(* C19, device side: the service-info pipeline of fdo.TO2                  *)
(* (to2.go exchangeServiceInfo / exchangeServiceInfoRound and              *)
(* to2_module.go handleOwnerModuleMessages) at the level of goroutines and *)
(* pipe capacities.  Pipeline.tla (C15) models one chunk pipe down to its  *)
(* critical sections; this module models how TO2 composes four of them:    *)
(*                                                                         *)
(*   per iteration of the loop in exchangeServiceInfo                      *)
(*     M  the module goroutine: reads the owner service info of the        *)
(*        PREVIOUS iteration (`cur`, a closed pipe) and writes the         *)
(*        device's answers into `out` (NewChunkOutPipe(cap)); closes it    *)
(*     T  the transport side (exchangeServiceInfoRound, recursive): builds *)
(*        a 68 from `out` until the owner's size limit is used up (PerD    *)
(*        service infos fit), sends it, and writes the service infos of    *)
(*        the 69 into `nin` (NewChunkInPipe(cap)), which NOBODY reads      *)
(*        before the next iteration; repeats while either side has more    *)
(*   the owner (abstract): while the device has more it answers empty;     *)
(*        otherwise its module sends up to PerO service infos (what fits   *)
(*        the device's receive size) and says whether more follow; it is   *)
(*        done when everything is sent and the device's answer arrived.    *)
(*                                                                         *)
(* A "service info" is a logical one (a key change in ChunkWriter): it     *)
(* takes one slot of the pipe's readers channel.  The documented buffering *)
(* bound is Bound slots, whatever the negotiated sizes ("1000 service info *)
(* buffered in and out").                                                  *)
(*                                                                         *)
(* Property (C19): for volumes up to the bound in the owner->device        *)
(* direction, any volume device->owner, any pair of size classes and any   *)
(* relative speed of M and T, the pipeline neither deadlocks nor loses or  *)
(* reorders anything, and terminates.  Above the bound the documented      *)
(* deadlock exists (DevPipe_MC_over.cfg must find it).                     *)
(*                                                                         *)
(* Scaled = FALSE: capacities as documented.  Scaled = TRUE is the defect  *)
(* class "capacity derived from a negotiated size": cap = Bound * DefPer / *)
(* PerD, used only to show that the deadlock check is able to fail below   *)
(* the bound (DevPipe_MC_scaled.cfg must find a deadlock).                 *)
(***************************************************************************)
EXTENDS Naturals, Sequences, FiniteSets, TLC

CONSTANTS
    Bound,      \* documented number of buffered service infos (1000 in to2.go)
    Vos,        \* owner->device volumes: logical service infos the owner module sends in one IsMoreServiceInfo round
    Vds,        \* device->owner volumes: service infos the device module answers with
    PerDs,      \* size classes device->owner: how many service infos fit one 68 (owner's MaxDeviceServiceInfoSize)
    PerOs,      \* size classes owner->device: how many fit one 69 (device's MaxServiceInfoSizeReceive)
    DefPer,     \* the class of the default size (1300)
    Scaled      \* BOOLEAN, see above

VARIABLES
    c,          \* configuration of this behaviour [vo, vd, perD, perO]
    it,         \* iteration of the loop in exchangeServiceInfo (0 = the devmod round)
    cur,        \* owner service infos in the pipe M reads (closed by T at the end of the previous iteration)
    mst,        \* M: "idle" | "run" | "closed"
    mleft,      \* device service infos M still has to write
    out,        \* slots in use in `out`
    outClosed,
    nin,        \* slots in use in `nin`
    tst,        \* T: "build" | "push" | "wait" | "final" | "done"
    msg,        \* service infos in the 68 being built
    pend,       \* service infos of the received 69 not yet written to `nin`
    more68, more69, done69,
    oleft,      \* service infos the owner module still has to send
    mgot,       \* service infos the device module received, total
    dgot        \* service infos the owner received from the device module, total

vars == <<c, it, cur, mst, mleft, out, outClosed, nin, tst, msg, pend, more68, more69, done69, oleft, mgot, dgot>>

Cap == IF Scaled THEN (Bound * DefPer) \div c.perD ELSE Bound
ExpD == IF c.vo > 0 THEN c.vd ELSE 0      \* the device module answers what it received; nothing received, nothing to answer
MustTerminate(cfg) == cfg.vo <= Bound     \* the property's premise: volume below the documented buffering bound

Init ==
    /\ c \in [vo : Vos, vd : Vds, perD : PerDs, perO : PerOs]
    /\ it = 0 /\ cur = 0
    /\ mst = "closed" /\ mleft = 0          \* iteration 0: devmod is written by Devmod.Write, one service info message
    /\ out = 1 /\ outClosed = TRUE
    /\ nin = 0
    /\ tst = "build" /\ msg = 0 /\ pend = 0
    /\ more68 = FALSE /\ more69 = FALSE /\ done69 = FALSE
    /\ oleft = c.vo
    /\ mgot = 0 /\ dgot = 0

-----------------------------------------------------------------------------
(* M: handleOwnerModuleMessages                                             *)
MRead ==    \* NextServiceInfo + the module's Receive
    /\ mst = "run" /\ cur > 0
    /\ cur' = cur - 1 /\ mgot' = mgot + 1
    /\ UNCHANGED <<c, it, mst, mleft, out, outClosed, nin, tst, msg, pend, more68, more69, done69, oleft, dgot>>

MWrite ==   \* respond(): UnchunkWriter.NextServiceInfo sends a pipe on the readers channel (blocks when all slots are taken)
    /\ mst = "run" /\ mleft > 0 /\ mgot > 0 /\ out < Cap
    /\ out' = out + 1 /\ mleft' = mleft - 1
    /\ UNCHANGED <<c, it, cur, mst, outClosed, nin, tst, msg, pend, more68, more69, done69, oleft, mgot, dgot>>

MClose ==   \* owner service info exhausted: yield, close the writer, return
    /\ mst = "run" /\ cur = 0 /\ mleft = 0
    /\ mst' = "closed" /\ outClosed' = TRUE
    /\ UNCHANGED <<c, it, cur, mleft, out, nin, tst, msg, pend, more68, more69, done69, oleft, mgot, dgot>>

-----------------------------------------------------------------------------
(* T: exchangeServiceInfoRound                                              *)
(* the owner's answer to a 68 carrying k device service infos (it > 0)      *)
Send(k, more) ==
    LET dg == IF it = 0 THEN dgot ELSE dgot + k           \* iteration 0 carries devmod, not module data
        batch == IF more \/ it = 0 THEN 0 ELSE (IF oleft < c.perO THEN oleft ELSE c.perO)
    IN /\ dgot' = dg
       /\ oleft' = oleft - batch
       /\ pend' = batch
       /\ more68' = more
       /\ more69' = (it > 0 /\ ~more /\ oleft - batch > 0)         \* the devmod round never announces more
       /\ done69' = (~more /\ oleft - batch = 0 /\ dg = ExpD /\ it > 0)
       /\ msg' = 0
       /\ tst' = "push"

TTake ==    \* ReadChunk returns a chunk: it fits what is left of the size limit
    /\ tst = "build" /\ out > 0 /\ msg < c.perD
    /\ out' = out - 1 /\ msg' = msg + 1
    /\ UNCHANGED <<c, it, cur, mst, mleft, outClosed, nin, tst, pend, more68, more69, done69, oleft, mgot, dgot>>

TSendMore ==    \* ErrSizeTooSmall: the next service info does not fit -> IsMoreServiceInfo
    /\ tst = "build" /\ out > 0 /\ msg = c.perD
    /\ Send(msg, TRUE)
    /\ UNCHANGED <<c, it, cur, mst, mleft, out, outClosed, nin, mgot>>

TSendLast ==    \* io.EOF: M closed the pipe and everything was read
    /\ tst = "build" /\ out = 0 /\ outClosed
    /\ Send(msg, FALSE)
    /\ UNCHANGED <<c, it, cur, mst, mleft, out, outClosed, nin, mgot>>

TPush ==    \* ChunkWriter.WriteChunk with a new key: `w.readers <- pr` (blocks when all slots are taken; no reader this iteration)
    /\ tst = "push" /\ pend > 0 /\ nin < Cap
    /\ nin' = nin + 1 /\ pend' = pend - 1
    /\ UNCHANGED <<c, it, cur, mst, mleft, out, outClosed, tst, msg, more68, more69, done69, oleft, mgot, dgot>>

TRecurse ==
    /\ tst = "push" /\ pend = 0
    /\ tst' = IF more68 \/ more69 THEN "build" ELSE (IF done69 THEN "final" ELSE "wait")
    /\ UNCHANGED <<c, it, cur, mst, mleft, out, outClosed, nin, msg, pend, more68, more69, done69, oleft, mgot, dgot>>

TNextIter ==    \* prevModuleName = <-moduleName: M returned; the next iteration starts M on what was received
    /\ tst = "wait" /\ mst = "closed"
    /\ it' = it + 1
    /\ cur' = nin /\ nin' = 0
    /\ out' = 0 /\ outClosed' = FALSE
    /\ mst' = "run"
    /\ mleft' = IF nin > 0 THEN ExpD - dgot ELSE 0
    /\ tst' = "build"
    /\ UNCHANGED <<c, msg, pend, more68, more69, done69, oleft, mgot, dgot>>

TFinal ==   \* IsDone: the last owner service info is handled synchronously, answers are discarded
    /\ tst = "final"
    /\ mgot' = mgot + nin /\ nin' = 0
    /\ tst' = "done"
    /\ UNCHANGED <<c, it, cur, mst, mleft, out, outClosed, msg, pend, more68, more69, done69, oleft, dgot>>

Terminated == tst = "done"

MNext == MRead \/ MWrite \/ MClose
TNext == TTake \/ TSendMore \/ TSendLast \/ TPush \/ TRecurse \/ TNextIter \/ TFinal
Next == MNext \/ TNext \/ (Terminated /\ UNCHANGED vars)

Spec == Init /\ [][Next]_vars /\ WF_vars(MNext) /\ WF_vars(TNext)

-----------------------------------------------------------------------------
TypeOK ==
    /\ out \in 0..(IF Cap > 1 THEN Cap ELSE 1) /\ nin \in 0..Cap
    /\ msg \in 0..c.perD /\ pend \in 0..c.perO
    /\ mst \in {"run", "closed"} /\ tst \in {"build", "push", "wait", "final", "done"}

(* nothing lost, nothing invented *)
Delivered == Terminated => mgot = c.vo /\ dgot = ExpD /\ oleft = 0
Termination == <>Terminated
(* how deep the recursion / the loop goes is bounded by the volumes (the 1e6-round limit is never the reason to stop) *)
BoundedRounds == it <= 4
=============================================================================
