SPECIFICATION GenSpec
CONSTANTS
  MaxSteps = 6
  MaxCuts = 1
  Ext = FALSE
  AIOs = {FALSE}
INVARIANTS Emit
