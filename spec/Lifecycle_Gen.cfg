SPECIFICATION GenSpec
CONSTANTS
  MaxSteps = 6
  MaxCuts = 1
INVARIANTS Emit
