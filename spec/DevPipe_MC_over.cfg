SPECIFICATION Spec
CONSTANTS
  Bound = 3
  Vos = {4}
  Vds = {1}
  PerDs = {2}
  PerOs = {2}
  DefPer = 2
  Scaled = FALSE
INVARIANTS TypeOK Delivered
