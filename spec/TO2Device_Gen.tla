--------------------------- MODULE TO2Device_Gen ---------------------------
(* Terminal states of TO2Device.tla as replayable cases for harness/devexec. *)
EXTENDS TO2Device, Json

Case == [n |-> n, to1d |-> to1d, atoms |-> atoms, result |-> result, sent64 |-> sent64,
         modules |-> modulesRan, either |-> Either, allcond |-> AllCond]
Emit == Terminal => PrintT("BEHAVIOUR " \o ToJson(Case))
=============================================================================
