\* exhaustive generation: every list up to length 2 over the full alphabet (16 variables x 6 classes x
\* all table values), both roles; the invariants of RvInfo.tla are checked in the same run.
SPECIFICATION Spec
CONSTANTS
  MaxLen = 2
  Classes = {"valid", "boundary", "malformed", "wrongtype", "empty", "range"}
  Full = TRUE
INVARIANTS TypeOK OrderIndependent OrderIndependentDistinct Commutes RoleFilter OwnRoleNeutral Defaults MalformedIgnored PortFromTables GenEmit
