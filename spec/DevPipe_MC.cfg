SPECIFICATION Spec
CONSTANTS
  Bound = 3
  Vos = {0, 1, 2, 3}
  Vds = {0, 1, 4}
  PerDs = {1, 3}
  PerOs = {1, 2, 3}
  DefPer = 2
  Scaled = FALSE
INVARIANTS TypeOK Delivered BoundedRounds
PROPERTIES Termination
