SPECIFICATION GenSpec
CONSTANTS
  Suites = {"ECDH256", "ECDH384", "DHKEXid14", "DHKEXid15", "ASYMKEX2048", "ASYMKEX3072"}
  Ciphers = {"A128GCM", "A192GCM", "A256GCM", "COSEAES128CBC", "COSEAES128CTR", "COSEAES256CBC", "COSEAES256CTR"}
  Rands = {1, 2}
  Slots = {1}
  AdvSlots = {1}
  MaxRestores = 5
INVARIANTS Emit Agreement Lengths Derivation DegenerateRejected ErrorMeansNoKeys KeysOnlyWhenDone RestoreTransparent KeysStable
