\* thorough generation: every configuration with every pair of alterations
SPECIFICATION Spec
CONSTANTS
  Algs = {"ES256", "ES384", "RS256", "RS384", "PS256", "PS384", "HMAC256", "HMAC384"}
  PayloadKinds = {"empty", "raw", "large", "nested"}
  MaxAlter = 2
INVARIANTS TypeOK VerifyExact HonestVerifies AlteredNeverVerifies AlterationsDiffer CoversAll GenEmit
