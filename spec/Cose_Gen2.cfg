\* thorough generation: every configuration with every pair of alterations
SPECIFICATION Spec
CONSTANTS
  Algs = {"ES256", "ES384", "RS256", "RS384", "PS256", "PS384", "HMAC256", "HMAC384"}
  PayloadKinds = {"empty", "raw", "large", "nested"}
  MaxAlter = 2
  OptsKeys = {"P-256", "P-384", "P-521", "RSA-2048", "RSA-3072"}
INVARIANTS TypeOK VerifyExact HonestVerifies AlteredNeverVerifies AlterationsDiffer CoversAll SignedOrRefused OptsVerify GenEmit
