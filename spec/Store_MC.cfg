SPECIFICATION Spec
CONSTANTS
  Toks = {1, 2}
  Vals = {"a", "b"}
  Guids = {"g1", "g2"}
  MaxOps = 4
INVARIANTS Isolation DeadToken DeadHasNoState ReplaceMovesVoucher ExpiredNotFound
PROPERTIES ReopenIsIdentity
