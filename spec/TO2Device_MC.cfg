SPECIFICATION Spec
CONSTANTS
  ChainLens = {1, 2, 3}
  MaxAtoms = 2
INVARIANTS Sent64Only CompleteOnly FailGivesNoCred MustFail HonestCompletes
PROPERTIES Terminates
