------------------------------ MODULE Cbor_Gen ------------------------------
(* Behaviour generation for C11: the builder of Cbor.tla with a history of   *)
(* the constructor actions.  Every state with exactly one item on the stack  *)
(* is a finished data item; it is printed once as                            *)
(*   BEHAVIOUR {"script": [...], "bytes": [...]}                             *)
(* script = the constructor actions (push leaf / arr k / map k / tag n /     *)
(* wrap), bytes = Enc(item), the canonical encoding the library must         *)
(* produce and must decode back to the item.  Used exhaustively (BFS to the  *)
(* bounds of the config) and with -simulate for deeper items.                *)
EXTENDS Cbor_MC, Json

VARIABLE hist

Op(op, v, k, n) == [op |-> op, v |-> v, k |-> k, n |-> n]

GenInit == Init /\ hist = <<>>

GenNext ==
    \/ \E x \in Leaves : Push(x) /\ hist' = Append(hist, Op("push", x, 0, <<>>))
    \/ \E k \in 0..MaxArr : WrapArray(k) /\ hist' = Append(hist, Op("arr", Null, k, <<>>))
    \/ \E k \in 0..MaxPairs : WrapMap(k) /\ hist' = Append(hist, Op("map", Null, k, <<>>))
    \/ \E n \in Tags : WrapTag(n) /\ hist' = Append(hist, Op("tag", Null, 0, n))
    \/ WrapBstr /\ hist' = Append(hist, Op("wrap", Null, 0, <<>>))

GenSpec == GenInit /\ [][GenNext]_<<stack, hist>>

Emit == (Len(stack) = 1) => PrintT("BEHAVIOUR " \o ToJson([script |-> hist, bytes |-> Enc(stack[1])]))

=============================================================================
