\* behaviours: same universe as Cbor_MC.cfg (theorems checked again on the way)
SPECIFICATION GenSpec
CONSTANTS
  Ints <- WideInts
  Strs <- WideStrs
  Tags <- WideTags
  Simples <- AllSimples
  MaxStack = 2
  MaxNodes = 3
  MaxDepth = 2
  MaxArr = 2
  MaxPairs = 1
  AllowWrap = TRUE
INVARIANTS Theorems Emit
