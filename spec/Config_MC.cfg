SPECIFICATION Spec
CONSTANTS SameKind = FALSE
INVARIANTS ValidCompletes InvalidFailsAtTO2
PROPERTIES Terminates
