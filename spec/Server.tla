------------------------------- MODULE Server -------------------------------
(***************************************************************************)
(* The server side of go-fdo (http.Handler + DI/TO0/TO1/TO2 responders +   *)
(* token-keyed session state) as one state machine, together with its      *)
(* environment: gated honest clients and an adversary that replays,        *)
(* substitutes, forges and mis-addresses messages.                         *)
(*                                                                         *)
(* One action = one HTTP exchange (the linearization point of a            *)
(* request/response library).  The session record `st` mirrors what the    *)
(* code keeps behind the token (which columns of the session tables are    *)
(* set); `prog` and `proven` are ghost variables that follow the FDO       *)
(* message order and the authentication facts the properties speak about.  *)
(* Properties: C08 (InOrder, DeadGrantsNothing, StartOnlyMints), C02       *)
(* (EffectsNeedProof), C06 (RVOnlyByOwner), C07 (RedirectOnlyToDevice).    *)
(***************************************************************************)
EXTENDS Naturals, Sequences, FiniteSets, TLC

CONSTANTS
    Slots,      \* session slots (each slot hosts at most one session)
    Devs,       \* onboarded devices: voucher with one entry in the owner store
    Reuse,      \* BOOLEAN: the owner offers credential reuse
    NMods,      \* number of owner service-info modules (each completes in one round)
    Policy,     \* rendezvous TTL policy: "none" (requested ttl is used), "fixed" (600 s), "short" (2 s), "zero" (reject)
    Forge64,    \* forged TO2.ProveDevice classes (C02)
    Forge22,    \* forged TO0.OwnerSign classes (C06)
    Forge32,    \* forged TO1.ProveToRV classes (C07)
    Served,     \* the protocols the HTTP handler has a responder for (a rendezvous server: {"TO0","TO1"}, ...)
    MaxReq,     \* bound on the number of exchanges (model checking only)
    WithMutants \* BOOLEAN: the C10 mutant actions are part of Next

VARIABLES
    sess,       \* [Slots -> session record]
    rv,         \* [Devs -> {"none","reg","regnc","expired"}]   rendezvous registrations ("regnc": the registered
                \* voucher has no device certificate chain, so no requester can prove the device key)
    ov,         \* [Devs -> {"orig","replaced"}]        owner voucher store
    nvouch,     \* number of vouchers added by DI
    cred,       \* [Devs -> {"orig","new"}]  which credential (GUID) the device holds
    last,       \* the last exchange (observable outcome)
    nreq

vars == <<sess, rv, ov, nvouch, cred, last, nreq>>

Protos     == {"DI", "TO0", "TO1", "TO2"}
StartType  == [DI |-> 10, TO0 |-> 20, TO1 |-> 30, TO2 |-> 60]
StartTypes == {10, 20, 30, 60}
ReqTypes   == {12, 22, 32, 62, 64, 66, 68, 70}
PlainRespTypes == {11, 13, 21, 23, 31, 33, 61, 63}     \* response types sent as requests
ErrType    == 255
Bodies     == {"honest", "replay", "foreign", "garbage", "skip"}
Toks       == {"own", "none", "bad"}

ProtoOf(t) == CASE t \in 10..13 -> "DI" [] t \in 20..23 -> "TO0" [] t \in 30..33 -> "TO1" [] OTHER -> "TO2"
Unserved(t) == ProtoOf(t) \notin Served     \* no responder: "unsupported message type", the token (if any) is left alone

NoSess == [proto |-> "none", live |-> FALSE, dev |-> "none", g |-> "orig", st |-> {}, mod |-> 0,
           cnext |-> 0, sent |-> {}, prog |-> 0, proven |-> FALSE,
           taint |-> FALSE]     \* a mutated device service info was accepted: what the owner holds of devmod is not what the device sent

AllDone == NMods + 1      \* value of `mod` once every owner module completed
ReqTTL == 3600            \* what the honest owner asks for
TTL == CASE Policy = "fixed" -> 600 [] Policy = "short" -> 2 [] OTHER -> ReqTTL   \* accepted time-to-live: stored expiry and reply

Init ==
    /\ sess = [s \in Slots |-> NoSess]
    /\ rv = [d \in Devs |-> "none"]
    /\ ov = [d \in Devs |-> "orig"]
    /\ nvouch = 0
    /\ cred = [d \in Devs |-> "orig"]
    /\ last = [kind |-> "init"]
    /\ nreq = 0

-----------------------------------------------------------------------------
(* Outcome records: what one exchange does.                                *)
Out(resp, s2, fx) == [resp |-> resp, sess |-> s2, fx |-> fx]

Kill(r)  == [r EXCEPT !.live = FALSE]                 \* the server forgot the session; the client may not know yet
Dead(r)  == [r EXCEPT !.live = FALSE, !.cnext = 0]    \* ... and the honest client has given up or finished

(* The honest client's next message after a successful response. *)
NextAfter(r, t, mod2) ==
    CASE t = 10 -> 12  [] t = 12 -> 0
      [] t = 20 -> 22  [] t = 22 -> 0
      [] t = 30 -> 32  [] t = 32 -> 0
      [] t = 60 -> 62  [] t = 62 -> 64 [] t = 64 -> 66 [] t = 66 -> 68
      [] t = 68 -> IF mod2 = AllDone THEN 70 ELSE 68
      [] t = 70 -> 0
      [] OTHER -> 0

(* Ghost: progress along the order of messages FDO specifies. *)
ProgAfter(r, t) ==
    CASE t = 12 /\ r.proto = "DI"  /\ r.prog = 1 -> 2
      [] t = 22 /\ r.proto = "TO0" /\ r.prog = 1 -> 2
      [] t = 32 /\ r.proto = "TO1" /\ r.prog = 1 -> 2
      [] t = 64 /\ r.proto = "TO2" /\ r.prog = 1 -> 2
      [] t = 66 /\ r.proto = "TO2" /\ r.prog = 2 -> 3
      [] t = 68 /\ r.proto = "TO2" /\ r.prog \in {3, 4} -> 4
      [] t = 70 /\ r.proto = "TO2" /\ r.prog \in {2, 3, 4} -> 5
      [] OTHER -> r.prog

WellFormed(b) == b \in {"honest", "replay", "skip"}

(* Success of message t in session record r with body class b.  `b = honest`  *)
(* advances the gated client; replay/skip/foreign leave cnext alone unless the *)
(* session dies.                                                               *)
Succeed(r, t, b, st2, mod2, resp) ==
    LET r1 == [r EXCEPT !.st = st2, !.mod = mod2, !.prog = ProgAfter(r, t),
                        !.proven = IF t = 64 THEN TRUE ELSE r.proven]
        r2 == IF b = "honest" THEN [r1 EXCEPT !.cnext = NextAfter(r, t, mod2)] ELSE r1
    IN  IF resp \in {13, 23, 33, 71} THEN Kill(r2) ELSE r2

(* The responder step for a request carrying the token of live session r. *)
(* Returns a set of possible (response, new record, effects, rv', ov').   *)
Respond(s, r, t, b) ==
    LET fail == {[resp |-> 255, r |-> Kill(r), fx |-> <<>>, rv |-> rv, ov |-> ov, nv |-> nvouch]}
        ok(resp, st2, mod2, fx, rv2, ov2, nv2) ==
            {[resp |-> resp, r |-> Succeed(r, t, b, st2, mod2, resp), fx |-> fx, rv |-> rv2, ov |-> ov2, nv |-> nv2]}
        d == r.dev
        Has(x) == d \in Devs /\ r.g = "orig" /\ x[d] = "orig"     \* voucher of the session's GUID is in the owner store
    IN
    CASE t = 12 ->
            IF b \in {"honest", "replay", "foreign"} /\ {"chain", "hdr"} \subseteq r.st
            THEN ok(13, r.st, r.mod, <<[k |-> "AddVoucher", s |-> s]>>, rv, ov, nvouch + 1)
            ELSE fail
      [] t = 22 ->
            IF b = "honest" /\ "nonce0" \in r.st /\ d \in Devs /\ r.g = "orig" /\ Policy # "zero"
            THEN ok(23, r.st, r.mod, <<[k |-> "SetRVBlob", s |-> s, d |-> d, ttl |-> TTL]>>, [rv EXCEPT ![d] = "reg"], ov, nvouch)
            ELSE fail
      [] t = 32 ->
            IF b = "honest" /\ "nonce1" \in r.st /\ d \in Devs /\ r.g = "orig" /\ rv[d] = "reg"
            THEN ok(33, r.st, r.mod, <<>>, rv, ov, nvouch)
            ELSE fail
      [] t = 62 ->
            IF b \in {"honest", "replay", "foreign"} /\ "guid" \in r.st /\ Has(ov)
            THEN ok(63, r.st, r.mod, <<>>, rv, ov, nvouch)
            ELSE fail
      [] t = 64 ->
            IF b = "honest" /\ {"guid", "pnonce", "kexA"} \subseteq r.st /\ "kexDone" \notin r.st
               /\ Has(ov)
            THEN ok(65, r.st \cup {"snonce", "kexDone"} \cup (IF Reuse THEN {} ELSE {"rguid", "rvinfo"}),
                    r.mod, <<[k |-> "KeysStored", s |-> s]>>, rv, ov, nvouch)     \* tunnel keys are stored only now
            ELSE fail
      [] t = 66 ->
            IF b \in {"honest", "replay", "skip"} /\ "kexDone" \in r.st
            THEN ok(67, r.st \cup {"mtu"} \cup (IF Reuse THEN {} ELSE {"rhmac"}), r.mod, <<>>, rv, ov, nvouch)
            ELSE fail
      [] t = 68 ->
            \* Device service info.  While devmod is incomplete (mod = 0) the built-in devmod
            \* module consumes it, which may take more than one message (the device yields
            \* after "nummodules"); afterwards owner module `mod` handles the message and, unless
            \* the device announced more to come, produces and completes.
            IF b \in {"honest", "replay", "skip"} /\ {"kexDone", "mtu"} \subseteq r.st /\ r.mod # AllDone /\ Has(ov)
            THEN LET fx == IF r.mod = 0 THEN <<>> ELSE <<[k |-> "ModuleCall", s |-> s, m |-> r.mod]>>
                     adv == ok(69, r.st \cup {"devmod"}, r.mod + 1, fx, rv, ov, nvouch)
                     stay == ok(69, r.st \cup {"devmod"}, r.mod, fx, rv, ov, nvouch)
                 IN (IF r.mod = 0 \/ b \in {"replay", "skip"} THEN adv \cup stay ELSE adv)
                    \cup (IF r.taint THEN fail ELSE {})      \* the honest continuation may no longer fit
            ELSE fail
      [] t = 70 ->
            IF b \in {"honest", "skip"} /\ {"kexDone", "pnonce", "snonce"} \subseteq r.st
            THEN (IF "rhmac" \in r.st
                  THEN IF {"guid", "rguid", "rvinfo"} \subseteq r.st /\ Has(ov)
                       THEN ok(71, r.st, r.mod, <<[k |-> "ReplaceVoucher", s |-> s, d |-> d]>>, rv, [ov EXCEPT ![d] = "replaced"], nvouch)
                       ELSE fail
                  ELSE ok(71, r.st, r.mod, <<>>, rv, ov, nvouch))
                 \cup (IF r.taint THEN fail ELSE {})      \* what an accepted mutant left behind may not make a voucher
            ELSE fail
      [] OTHER -> fail

Record(kind, s, t, tok, b, resp, fx, liveAfter) ==
    [kind |-> kind, s |-> s, t |-> t, tok |-> tok, b |-> b, resp |-> resp, fx |-> fx, live |-> liveAfter]

-----------------------------------------------------------------------------
(* Start(s, p, d): the honest client of a fresh slot sends its first message; *)
(* the handler mints a token for it whatever Authorization header came along. *)
Start(s, p, d) ==
    /\ sess[s].proto = "none"
    /\ p \in Protos
    /\ (p = "DI") = (d = "new")
    /\ LET base == [NoSess EXCEPT !.proto = p, !.dev = d, !.live = TRUE, !.prog = 1, !.sent = {StartType[p]},
                                  !.g = IF d \in Devs THEN cred[d] ELSE "orig"]
           good(st, nxt) == [base EXCEPT !.st = st, !.cnext = nxt]
           bad == Dead(base)
           r == CASE p \notin Served -> bad
                  [] p = "DI"  -> good({"chain", "hdr"}, 12)
                  [] p = "TO0" -> good({"nonce0"}, 22)
                  [] p = "TO1" -> IF rv[d] \in {"reg", "regnc"} /\ cred[d] = "orig" THEN good({"nonce1"}, 32) ELSE bad
                  [] p = "TO2" -> IF ov[d] = "orig" /\ cred[d] = "orig" THEN good({"guid", "pnonce", "kexA"}, 62) ELSE bad
           resp == IF r.live THEN StartType[p] + 1 ELSE 255
       IN /\ sess' = [sess EXCEPT ![s] = r]
          /\ last' = Record("start", s, StartType[p], "none", "honest", resp, <<>>, r.live) @@ [p |-> p, d |-> d]
    /\ UNCHANGED <<rv, ov, nvouch, cred>>
    /\ nreq' = nreq + 1

(* Apply one of the possible outcomes of a request under the token of slot s. *)
Apply(kind, s, t, b, o) ==
    /\ sess' = [sess EXCEPT ![s] = o.r]
    /\ rv' = o.rv
    /\ ov' = o.ov
    /\ nvouch' = o.nv
    /\ cred' = IF kind = "honest" /\ t = 70 /\ o.resp = 71 /\ o.ov # ov
               THEN [cred EXCEPT ![sess[s].dev] = "new"] ELSE cred     \* the device adopts the credential of its own successful run
    /\ last' = Record(kind, s, t, "own", b, o.resp, o.fx, o.r.live)
    /\ nreq' = nreq + 1

(* Honest(s): the gate lets the honest client's next message through. *)
Honest(s) ==
    LET r == sess[s] IN
    /\ r.proto # "none" /\ r.cnext # 0 /\ r.cnext \notin StartTypes
    /\ \* the TO0 client looks the voucher up before it sends 22
       (r.cnext = 22 => ov[r.dev] = "orig" /\ r.g = "orig")
    /\ IF r.live
       THEN \E o \in Respond(s, r, r.cnext, "honest") :
                \* the message is on record as sent; a failed honest step makes the client give up
                LET o1 == [o EXCEPT !.r.sent = r.sent \cup {r.cnext}] IN
                Apply("honest", s, r.cnext, "honest", IF o.resp = 255 THEN [o1 EXCEPT !.r = Dead(o1.r)] ELSE o1)
       ELSE /\ sess' = [sess EXCEPT ![s] = [Dead(r) EXCEPT !.sent = r.sent \cup {r.cnext}]]
            /\ last' = Record("honest", s, r.cnext, "own", "honest", 255, <<>>, FALSE)
            /\ UNCHANGED <<rv, ov, nvouch, cred>>
            /\ nreq' = nreq + 1

(* Mutated(s, atom): the honest client's next message is forged in flight  *)
(* (re-signed, claims swapped, ...); every forged class must be refused.   *)
ForgeSet(t) == CASE t = 64 -> Forge64 [] t = 22 -> Forge22 [] t = 32 -> Forge32 [] OTHER -> {}

Mutated(s, atom) ==
    LET r == sess[s] IN
    /\ r.proto # "none" /\ r.cnext # 0
    /\ atom \in ForgeSet(r.cnext)
    /\ (r.cnext = 22 => ov[r.dev] = "orig" /\ r.g = "orig")
    /\ IF atom = "strip_certchain" /\ r.live /\ "nonce0" \in r.st /\ Policy # "zero"
       THEN \* not a forgery: the genuine owner registers its voucher without the device certificate
            \* chain; the registration is accepted, but nobody can ever prove the device key for it
            /\ sess' = [sess EXCEPT ![s] = Dead([r EXCEPT !.prog = 2, !.sent = r.sent \cup {22}])]
            /\ rv' = [rv EXCEPT ![r.dev] = "regnc"]
            /\ last' = Record("forged", s, 22, "own", atom, 23, <<[k |-> "SetRVBlob", s |-> s, d |-> r.dev, ttl |-> TTL]>>, FALSE)
            /\ UNCHANGED <<ov, nvouch, cred>>
       ELSE /\ sess' = [sess EXCEPT ![s] = Dead(r)]
            /\ last' = Record("forged", s, r.cnext, "own", atom, 255, <<>>, FALSE)
            /\ UNCHANGED <<rv, ov, nvouch, cred>>
    /\ nreq' = nreq + 1

(* Inject(s, t, tok, b): an out-of-band request of type t carrying the token of *)
(* slot s (or none / a damaged one) and a replayed, foreign, crafted or         *)
(* malformed body.                                                              *)
CanReplay(r, t) == t \in r.sent
CanSkip(r, t)   == /\ t \in {66, 68, 70} /\ r.proto = "TO2" /\ r.proven   \* the device holds the tunnel keys and nonces (it received 65)
                   \* a crafted 68 carries devmod whole (none delivered yet) or nothing (devmod complete)
                   /\ (t = 68 => ~("devmod" \in r.st /\ r.mod = 0))

Inject(s, t, tok, b) ==
    LET r == sess[s] IN
    /\ r.proto # "none"
    /\ t \in ReqTypes /\ tok \in Toks /\ b \in Bodies \ {"honest"}
    /\ (b = "replay" => CanReplay(r, t))
    /\ (b = "skip" => CanSkip(r, t))
    /\ IF tok = "own" /\ r.live /\ ~Unserved(t)
       THEN \E o \in Respond(s, r, t, b) : Apply("inject", s, t, b, o)
       ELSE \* no session behind the request (or no responder for its type): error, nothing changes
            /\ last' = Record("inject", s, t, tok, b, 255, <<>>, r.live)
            /\ UNCHANGED <<sess, rv, ov, nvouch, cred>>
            /\ nreq' = nreq + 1

(* Mutant(s, t): a structure-aware mutation of a message of type t under the token of slot s  *)
(* (C10).  A mutant may happen to be acceptable (it may touch an unauthenticated field only), *)
(* so every outcome the responder has for any body class is allowed - but nothing else: no   *)
(* crash, no hang, no unbounded allocation (those are not actions of this specification).    *)
Mutant(s, t) ==
    LET r == sess[s] IN
    /\ r.proto # "none" /\ t \in ReqTypes
    /\ IF r.live /\ ~Unserved(t)
       THEN \E b \in Bodies : \E o \in Respond(s, r, t, b) :
                \* the honest client has not moved; an accepted mutant is a genuine message on record.
                \* An accepted TO0.OwnerSign mutant may have altered what TO0 does not authenticate (the
                \* device certificate chain), so the registration may be one nobody can prove the key for.
                \* ... or asked for a time-to-live of zero / addresses nobody can use: a registration that
                \* is already over ("expired").
                \E reg \in (IF t = 22 /\ o.resp = 23 THEN {"reg", "regnc", "expired"} ELSE {"asis"}) :
                Apply("mutant", s, t, "mutant", [o EXCEPT !.r.cnext = r.cnext,
                                                          !.r.sent = IF o.resp = 255 THEN o.r.sent ELSE o.r.sent \cup {t},
                                                          \* an accepted mutant of 66 or 68 leaves the owner with a replacement
                                                          \* HMAC / MTU / devmod the device did not send
                                                          !.r.taint = o.r.taint \/ (t = 68 /\ o.resp = 69) \/ (t = 66 /\ o.resp = 67),
                                                          !.rv = IF reg = "asis" THEN o.rv ELSE [o.rv EXCEPT ![r.dev] = reg]])
       ELSE /\ last' = Record("mutant", s, t, "own", "mutant", 255, <<>>, r.live)
            /\ UNCHANGED <<sess, rv, ov, nvouch, cred>>
            /\ nreq' = nreq + 1

MutantStart(s, t) ==
    /\ sess[s].proto # "none" /\ t \in StartTypes
    /\ \E resp \in (IF Unserved(t) THEN {255} ELSE {t + 1, 255}) : last' = Record("mutant", s, t, "own", "mutant", resp, <<>>, sess[s].live)
    /\ UNCHANGED <<sess, rv, ov, nvouch, cred>>
    /\ nreq' = nreq + 1

MutantError(s) ==
    /\ sess[s].proto # "none"
    /\ sess' = [sess EXCEPT ![s] = Kill(sess[s])]
    /\ \E resp \in {0, 255} : last' = Record("mutant", s, 255, "own", "mutant", resp, <<>>, FALSE)
    /\ UNCHANGED <<rv, ov, nvouch, cred>>
    /\ nreq' = nreq + 1

(* damage to the request line or the headers: refused by the handler; the handler may drop the *)
(* session when it cannot frame the body                                                       *)
MutantHttp(s, t) ==
    /\ sess[s].proto # "none"
    /\ \E kill \in (IF t \in StartTypes THEN {FALSE} ELSE BOOLEAN) :
         /\ sess' = IF kill THEN [sess EXCEPT ![s] = Kill(sess[s])] ELSE sess
         /\ last' = Record("mutant", s, t, "own", "http", 255, <<>>, IF kill THEN FALSE ELSE sess[s].live)
    /\ UNCHANGED <<rv, ov, nvouch, cred>>
    /\ nreq' = nreq + 1

(* A response type sent as a request is answered with an empty message. *)
InjectRespType(s, t, tok) ==
    /\ sess[s].proto # "none" /\ t \in PlainRespTypes /\ tok \in Toks
    /\ \E resp \in (IF Unserved(t) THEN {255} ELSE IF tok = "bad" THEN {0, 255} ELSE {0}) :     \* a malformed Authorization header is refused outright
            last' = Record("inject", s, t, tok, "garbage", resp, <<>>, sess[s].live)
    /\ UNCHANGED <<sess, rv, ov, nvouch, cred>>
    /\ nreq' = nreq + 1

(* A replayed or foreign start message creates a session nobody continues. *)
OrphanStart(s, t, b) ==
    /\ sess[s].proto # "none" /\ t \in StartTypes /\ b \in {"replay", "garbage"}
    /\ (b = "replay" => t \in sess[s].sent)
    /\ LET r == sess[s]
           resps == IF Unserved(t) THEN {255}
                   ELSE IF b = "garbage" THEN (IF t = 20 THEN {21, 255} ELSE {255})   \* TO0.Hello is an empty array: some garbage is a valid Hello
                   ELSE {CASE t = 30 -> IF rv[r.dev] \in {"reg", "regnc"} /\ r.g = "orig" THEN 31 ELSE 255
                          [] t = 60 -> IF ov[r.dev] = "orig" /\ r.g = "orig" THEN 61 ELSE 255
                          [] OTHER -> t + 1}
       IN \E resp \in resps : last' = Record("orphan", s, t, "own", b, resp, <<>>, sess[s].live)
    /\ UNCHANGED <<sess, rv, ov, nvouch, cred>>
    /\ nreq' = nreq + 1

(* An FDO error message (type 255) ends the session named by the token. *)
ErrorMsg(s, tok) ==
    /\ sess[s].proto # "none" /\ tok \in Toks
    /\ sess' = IF tok = "own" THEN [sess EXCEPT ![s] = Kill(sess[s])] ELSE sess
    /\ \E resp \in (IF tok = "bad" THEN {0, 255} ELSE {0}) :
            last' = Record("errmsg", s, 255, tok, "honest", resp, <<>>, IF tok = "own" THEN FALSE ELSE sess[s].live)
    /\ UNCHANGED <<rv, ov, nvouch, cred>>
    /\ nreq' = nreq + 1

(* Time passes: a registration expires. *)
Expire(d) ==
    /\ rv[d] \in {"reg", "regnc"}
    /\ rv' = [rv EXCEPT ![d] = "expired"]
    /\ last' = [kind |-> "expire", d |-> d]
    /\ UNCHANGED <<sess, ov, nvouch, cred, nreq>>

(* The server process is torn down and rebuilt from the database. *)
Restart ==
    /\ last' = [kind |-> "restart"]
    /\ UNCHANGED <<sess, rv, ov, nvouch, cred, nreq>>

Next ==
    \/ \E s \in Slots, p \in Protos, d \in Devs \cup {"new"} : Start(s, p, d)
    \/ \E s \in Slots : Honest(s)
    \/ \E s \in Slots, a \in Forge64 \cup Forge22 \cup Forge32 : Mutated(s, a)
    \/ \E s \in Slots, t \in ReqTypes, tok \in Toks, b \in Bodies : Inject(s, t, tok, b)
    \/ \E s \in Slots, t \in PlainRespTypes, tok \in Toks : InjectRespType(s, t, tok)
    \/ (WithMutants /\ \E s \in Slots, t \in ReqTypes : Mutant(s, t))
    \/ (WithMutants /\ \E s \in Slots, t \in StartTypes : MutantStart(s, t))
    \/ (WithMutants /\ \E s \in Slots : MutantError(s))
    \/ (WithMutants /\ \E s \in Slots, t \in ReqTypes \cup StartTypes : MutantHttp(s, t))
    \/ \E s \in Slots, t \in StartTypes, b \in {"replay", "garbage"} : OrphanStart(s, t, b)
    \/ \E s \in Slots, tok \in Toks : ErrorMsg(s, tok)
    \/ \E d \in Devs : Expire(d)
    \/ Restart

Spec == Init /\ [][Next]_vars

Bound == nreq < MaxReq

-----------------------------------------------------------------------------
(* Properties *)

TypeOK ==
    /\ \A s \in Slots : sess[s].proto \in Protos \cup {"none"} /\ sess[s].mod \in 0..AllDone
    /\ \A d \in Devs : rv[d] \in {"none", "reg", "regnc", "expired"} /\ ov[d] \in {"orig", "replaced"}

IsReq == last.kind \in {"start", "honest", "forged", "inject", "orphan", "errmsg", "mutant"}

FxKinds == IF IsReq THEN {last.fx[i].k : i \in 1..Len(last.fx)} ELSE {}

(* C08: every effect is the consequence of its protocol's messages having been *)
(* accepted in order in the same session (prog is the ghost order automaton;   *)
(* it is evaluated after the step, which includes the final message).          *)
InOrder ==
    IsReq =>
      LET r == sess[last.s] IN
      /\ ("AddVoucher" \in FxKinds     => r.proto = "DI"  /\ r.prog = 2 /\ last.t = 12 /\ last.resp = 13)
      /\ ("SetRVBlob" \in FxKinds      => r.proto = "TO0" /\ r.prog = 2 /\ last.t = 22 /\ last.resp = 23)
      /\ ("KeysStored" \in FxKinds     => r.proto = "TO2" /\ r.proven /\ last.t = 64 /\ last.resp = 65)
      /\ ("ModuleCall" \in FxKinds     => r.proto = "TO2" /\ r.prog = 4 /\ last.t = 68)
      /\ ("ReplaceVoucher" \in FxKinds => r.proto = "TO2" /\ r.prog = 5 /\ last.t = 70 /\ last.resp = 71)

(* C08: an error answer never comes with an effect; a request without a live  *)
(* session behind it is answered with an error (or the empty answer).          *)
ErrorsHaveNoEffect == IsReq /\ last.resp \in {0, 255} => last.fx = <<>>

NoTokenNoService ==
    IsReq /\ last.kind \in {"inject", "errmsg"} /\ last.tok \in {"none", "bad"} => last.resp \in {0, 255} /\ last.fx = <<>>

(* C08: after a protocol's final message or any error the token is dead. *)
FinalKills == IsReq /\ last.kind \in {"honest", "inject", "forged", "mutant"} /\ last.b # "http" /\ last.t \notin StartTypes /\ last.tok = "own" /\ last.resp \in {13, 23, 33, 71, 255}
                  /\ ~Unserved(last.t)       \* named deviation UnservedKeepsToken: a type without a responder is refused before the session is looked at
              => ~last.live

(* C02: SetupDevice and everything after it only in a proven session. *)
EffectsNeedProof ==
    IsReq /\ (last.resp \in {65, 67, 69, 71} \/ "ModuleCall" \in FxKinds \/ "ReplaceVoucher" \in FxKinds)
        => sess[last.s].proven /\ "kexDone" \in sess[last.s].st

ProvenOnlyByHonest64 ==
    \A s \in Slots : sess[s].proven => 64 \in sess[s].sent

(* C06 / C07: forged requests are refused. *)
ForgedRefused == IsReq /\ last.kind = "forged" /\ last.b # "strip_certchain" => last.resp = 255 /\ last.fx = <<>> /\ ~last.live

(* C07: a redirect is released only while the registration is valid. *)
RedirectNeedsRegistration ==
    IsReq /\ last.resp = 33 => rv[sess[last.s].dev] = "reg" /\ last.b \in {"honest", "mutant"}

(* Dead sessions stay dead and do not change (action property). *)
DeadStaysDead ==
    [][\A s \in Slots : (sess[s].proto # "none" /\ ~sess[s].live) =>
            (sess'[s].live = FALSE /\ sess'[s].st = sess[s].st /\ sess'[s].prog = sess[s].prog)]_vars

(* Stores change only through their protocol's accepting step (action property). *)
StoresChangeOnlyByProtocol ==
    [][ /\ (ov' # ov => last'.kind \in {"honest", "inject", "mutant"} /\ last'.t = 70 /\ last'.resp = 71)
        /\ (nvouch' # nvouch => last'.t = 12 /\ last'.resp = 13)
        /\ (\E d \in Devs : rv'[d] \in {"reg", "regnc"} /\ rv[d] # rv'[d]) => (last'.t = 22 /\ last'.resp = 23 /\ last'.b \in {"honest", "mutant", "strip_certchain"})
      ]_vars

=============================================================================
