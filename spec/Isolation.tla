------------------------------ MODULE Isolation ------------------------------
(***************************************************************************)
(* C19, non-interference: many TO2 sessions through ONE owner service      *)
(* (one handler, one TO2Server, one state store).  Server.tla interleaves   *)
(* sessions message by message and speaks about order and authentication;  *)
(* this module speaks about what a session OBTAINS: the replacement         *)
(* credential, the stored replacement voucher, the module data and the     *)
(* negotiated sizes are functions of the session's own voucher and its own *)
(* messages, whatever other sessions the same server instance serves       *)
(* before, after or in between.                                            *)
(*                                                                         *)
(* One action = one TO2 exchange of one session, written like the          *)
(* responder: it reads the voucher of the session's GUID, the session row  *)
(* behind the token, the server's immutable configuration (owner keys, the *)
(* per-voucher callbacks RvInfo / ReuseCredential /                        *)
(* MaxDeviceServiceInfoSize, the module state machine keyed by token) and  *)
(* writes the session row and, in Done, the voucher store.                 *)
(*                                                                         *)
(* Devices of a mix share key kinds and differ in the per-voucher and per- *)
(* session attributes: encoding of the key in the voucher (X509 / X5CHAIN  *)
(* / COSE), credential reuse, replacement rendezvous info, owner module    *)
(* list and volume, both service-info sizes.                               *)
(*                                                                         *)
(* NonInterference: when a session is complete its outcome is Solo(cfg),   *)
(* the outcome of the sequential run of that device alone.                 *)
(*                                                                         *)
(* Memo = FALSE is the service as specified and as coded.  Memo = TRUE     *)
(* adds the defect class the property is about - state kept per SERVER     *)
(* where the input is per SESSION (here: the encoded owner key remembered  *)
(* per key kind) - and is used only to show that NonInterference is able   *)
(* to fail (Isolation_MC_memo.cfg must produce a counterexample).          *)
(***************************************************************************)
EXTENDS Naturals, Sequences, FiniteSets, TLC

CONSTANTS
    Devs,       \* the devices of the mix (one TO2 session each)
    Kinds,      \* key kinds present in the mix
    Encs,       \* encodings of the manufacturer key in a voucher
    Rvs,        \* replacement rendezvous infos the owner may assign to a voucher
    Mtus,       \* service-info size classes: "small", "default", "large"
    ModCounts,  \* numbers of owner modules of a session
    Vols,       \* numbers of distinct-key messages a module sends before its large one
    OwnerChain, \* BOOLEAN: the owner keys come with certificate chains (X5CHAIN possible)
    Memo        \* BOOLEAN: FALSE = as specified; TRUE = per-server memo of the encoded owner key (defect class)

VARIABLES
    cfg,        \* [Devs -> configuration]   (fixed after Init)
    store,      \* owner voucher store, by device (GUID)
    srow,       \* session rows, by device (token)
    dev,        \* what each device holds
    pc,         \* [Devs -> next request type of the session, "end" when TO2 is complete]
    memo        \* [Kinds -> encoding | "none"]; stays "none" unless Memo

vars == <<cfg, store, srow, dev, pc, memo>>

ECKinds == {"P256", "P384"}
MinVol == CHOOSE v \in Vols : \A w \in Vols : v <= w        \* without modules the volume means nothing
Cfgs == {c \in [kind : Kinds, enc : Encs, reuse : BOOLEAN, rv : Rvs, omtu : Mtus, dmtu : Mtus, mods : ModCounts, vol : Vols] :
            (c.enc = "COSE" => c.kind \in ECKinds) /\ (c.mods = 0 => c.vol = MinVol)}

HashOf(kind) == IF kind \in {"P384", "RSAPKCS3072", "RSAPSS3072"} THEN "SHA384" ELSE "SHA256"
RvTag(k) == "r" \o ToString(k)

(* the encoding the owner service gives its own key for a voucher whose manufacturer key is *)
(* encoded as e: the same, except that X5CHAIN needs a certificate chain                     *)
Eff(e) == IF e = "X5CHAIN" /\ ~OwnerChain THEN "X509" ELSE e

OrigVoucher(c) == [st |-> "orig", enc |-> c.enc, key |-> "mfg", rv |-> "orig", guid |-> "same", entries |-> 1]
NoRow == [hello |-> FALSE, rguid |-> "none", rrv |-> "none", mtu |-> "none", rhmac |-> FALSE, devmod |-> "none", mods |-> 0]
NoDev == [hdrenc |-> "none", o2enc |-> "none", rguid |-> "none", rrv |-> "none", omtu |-> "none",
          echo |-> "none", nrecv |-> 0, oecho |-> "none", onrecv |-> 0]

InitWith(c) ==
    /\ cfg = c
    /\ store = [d \in Devs |-> OrigVoucher(c[d])]
    /\ srow = [d \in Devs |-> NoRow]
    /\ dev = [d \in Devs |-> NoDev]
    /\ pc = [d \in Devs |-> "60"]
    /\ memo = [k \in Kinds |-> "none"]

Init == \E c \in [Devs -> Cfgs] : InitWith(c)
AnyCfg == CHOOSE c \in Cfgs : TRUE        \* placeholder before a trace / a generator names the mix

-----------------------------------------------------------------------------
(* TO2Server.ownerKey(keyType, keyEncoding of the session's voucher): the  *)
(* encoded owner key.  As specified it is a function of its arguments.     *)
KeyEnc(d) ==
    LET want == Eff(store[d].enc)
        k == cfg[d].kind
    IN IF Memo /\ memo[k] # "none" THEN memo[k] ELSE want
Remember(d) ==
    IF Memo /\ memo[cfg[d].kind] = "none" THEN memo' = [memo EXCEPT ![cfg[d].kind] = Eff(store[d].enc)] ELSE UNCHANGED memo

(* HelloDevice(60) -> ProveOVHdr(61): the voucher of the GUID, the owner key in the voucher's encoding *)
X60(d) ==
    /\ pc[d] = "60" /\ store[d].st = "orig"
    /\ srow' = [srow EXCEPT ![d].hello = TRUE]
    /\ dev' = [dev EXCEPT ![d].hdrenc = KeyEnc(d)]
    /\ Remember(d)
    /\ pc' = [pc EXCEPT ![d] = "62"]
    /\ UNCHANGED <<cfg, store>>

(* GetOVNextEntry(62) -> OVNextEntry(63): one entry per voucher of this mix *)
X62(d) ==
    /\ pc[d] = "62" /\ srow[d].hello
    /\ pc' = [pc EXCEPT ![d] = "64"]
    /\ UNCHANGED <<cfg, store, srow, dev, memo>>

(* ProveDevice(64) -> SetupDevice(65): replacement GUID and rendezvous info decided for THIS voucher, *)
(* Owner2Key in the voucher's encoding                                                                *)
X64(d) ==
    /\ pc[d] = "64"
    /\ LET c == cfg[d]
           rg == IF c.reuse THEN "same" ELSE "fresh"
           rr == IF c.reuse THEN store[d].rv ELSE RvTag(c.rv)
       IN /\ srow' = [srow EXCEPT ![d].rguid = rg, ![d].rrv = rr]
          /\ dev' = [dev EXCEPT ![d].o2enc = KeyEnc(d), ![d].rguid = rg, ![d].rrv = rr]
    /\ Remember(d)
    /\ pc' = [pc EXCEPT ![d] = "66"]
    /\ UNCHANGED <<cfg, store>>

(* DeviceServiceInfoReady(66) -> OwnerServiceInfoReady(67): the device's receive size goes into the *)
(* session row, the size announced is the one configured for THIS voucher; the replacement HMAC is  *)
(* stored unless the credential is reused                                                           *)
X66(d) ==
    /\ pc[d] = "66"
    /\ srow' = [srow EXCEPT ![d].mtu = cfg[d].dmtu, ![d].rhmac = ~cfg[d].reuse]
    /\ dev' = [dev EXCEPT ![d].omtu = cfg[d].omtu]
    /\ pc' = [pc EXCEPT ![d] = "68"]
    /\ UNCHANGED <<cfg, store, memo>>

(* DeviceServiceInfo(68) -> OwnerServiceInfo(69), any number of times: devmod of THIS session is   *)
(* stored in the row, the module list is built from it, the modules send what they derive from it, *)
(* sized by the row's mtu; the device answers each module, sized by what was announced to it.      *)
X68(d) ==
    /\ pc[d] = "68"
    /\ LET who == d                                     \* the device named by the devmod in the message
           n == cfg[who].mods
       IN /\ srow' = [srow EXCEPT ![d].devmod = who, ![d].mods = n]
          /\ dev' = [dev EXCEPT ![d].echo = IF n = 0 THEN "none" ELSE (IF who = d THEN "own" ELSE "foreign"),
                                ![d].nrecv = n * (cfg[who].vol + 1),
                                ![d].oecho = IF n = 0 THEN "none" ELSE "own",
                                ![d].onrecv = n]
    /\ UNCHANGED <<cfg, store, pc, memo>>

(* Done(70) -> Done2(71): with a replacement HMAC in the row the voucher is replaced: new GUID and  *)
(* rendezvous info from the row, the owner key in the encoding of the voucher being replaced        *)
X70(d) ==
    /\ pc[d] = "68" /\ srow[d].devmod # "none"
    /\ IF srow[d].rhmac
       THEN /\ store' = [store EXCEPT ![d] = [st |-> "replaced", enc |-> KeyEnc(d), key |-> "owner", rv |-> srow[d].rrv,
                                              guid |-> srow[d].rguid, entries |-> 0]]
            /\ Remember(d)
       ELSE UNCHANGED <<store, memo>>
    /\ pc' = [pc EXCEPT ![d] = "end"]
    /\ UNCHANGED <<cfg, srow, dev>>

Exch(d, t) ==
    CASE t = 60 -> X60(d) [] t = 62 -> X62(d) [] t = 64 -> X64(d) [] t = 66 -> X66(d) [] t = 68 -> X68(d) [] t = 70 -> X70(d)
      [] OTHER -> FALSE

Done == \A d \in Devs : pc[d] = "end"
Next == (\E d \in Devs, t \in {60, 62, 64, 66, 68, 70} : Exch(d, t)) \/ (Done /\ UNCHANGED vars)
Spec == Init /\ [][Next]_vars

-----------------------------------------------------------------------------
(* What a device obtained (projection of credential, stored voucher, module data, sizes). *)
SizeClass(n, m) == IF n = 0 THEN "small" ELSE m      \* without modules only devmod and empty messages travel
Outcome(d) ==
    LET c == cfg[d]
        v == store[d]
        reuse == ~srow[d].rhmac
    IN [reuse   |-> reuse,
        guid    |-> IF reuse THEN "same" ELSE dev[d].rguid,
        cenc    |-> IF reuse THEN c.enc ELSE dev[d].o2enc,      \* the key encoding hashed into the credential
        alg     |-> HashOf(c.kind),
        venc    |-> v.enc,
        vkey    |-> v.key,
        agree   |-> (IF reuse THEN c.enc ELSE dev[d].o2enc) = v.enc /\ v.guid = (IF reuse THEN "same" ELSE dev[d].rguid),
        rv      |-> IF reuse THEN "orig" ELSE dev[d].rrv,
        vrv     |-> v.rv,
        entries |-> v.entries,
        echo    |-> dev[d].echo,
        nrecv   |-> dev[d].nrecv,
        oecho   |-> dev[d].oecho,
        onrecv  |-> dev[d].onrecv,
        devmod  |-> IF srow[d].devmod = d THEN "own" ELSE "foreign",
        w68     |-> SizeClass(srow[d].mods, dev[d].omtu),
        w69     |-> SizeClass(srow[d].mods, srow[d].mtu)]

(* The sequential run of one device alone, as a function of its own configuration. *)
Solo(c) ==
    LET e == IF c.reuse THEN c.enc ELSE Eff(c.enc)
        r == IF c.reuse THEN "orig" ELSE RvTag(c.rv)
        data == IF c.mods = 0 THEN "none" ELSE "own"
    IN [reuse   |-> c.reuse,
        guid    |-> IF c.reuse THEN "same" ELSE "fresh",
        cenc    |-> e,
        alg     |-> HashOf(c.kind),
        venc    |-> e,
        vkey    |-> IF c.reuse THEN "mfg" ELSE "owner",
        agree   |-> TRUE,
        rv      |-> r,
        vrv     |-> r,
        entries |-> IF c.reuse THEN 1 ELSE 0,
        echo    |-> data,
        nrecv   |-> c.mods * (c.vol + 1),
        oecho   |-> data,
        onrecv  |-> c.mods,
        devmod  |-> "own",
        w68     |-> SizeClass(c.mods, c.omtu),
        w69     |-> SizeClass(c.mods, c.dmtu)]

TypeOK ==
    /\ \A d \in Devs : pc[d] \in {"60", "62", "64", "66", "68", "end"}
    /\ \A k \in Kinds : memo[k] \in Encs \cup {"none"}

(* C19: each obtains the outcome it would obtain alone, under every interleaving. *)
NonInterference == \A d \in Devs : pc[d] = "end" => Outcome(d) = Solo(cfg[d])

(* an exchange touches the row, the voucher and the device of its own session only (action property) *)
Touched(d) == srow'[d] # srow[d] \/ store'[d] # store[d] \/ dev'[d] # dev[d] \/ pc'[d] # pc[d]
OwnRowOnly == [][\A d, e \in Devs : d # e => ~(Touched(d) /\ Touched(e))]_vars
=============================================================================
