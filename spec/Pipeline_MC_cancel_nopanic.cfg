SPECIFICATION Spec
CONSTANTS
  Ks = {0, 1, 2}
  ScriptIds = {2, 3, 5}
  Want = 2
  Cancels = {TRUE}
  Lates = {FALSE}
  ClosingCheck = FALSE
  Stops = {FALSE, TRUE}
INVARIANTS TypeOK NoPanic
