SPECIFICATION Spec
CONSTANTS
  Devs = {"d1", "d2"}
  Kinds = {"P256"}
  Encs = {"X509", "X5CHAIN"}
  Rvs = {1}
  Mtus = {"default"}
  ModCounts = {0}
  Vols = {0}
  OwnerChain = TRUE
  Memo = TRUE
INVARIANTS TypeOK NonInterference
