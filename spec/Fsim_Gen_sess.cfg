SPECIFICATION GenSpec
CONSTANTS
  Modules = {"download", "upload", "wget"}
  MaxLen = 2
  ChunkLens = {2}
  Deltas = {1}
  MaxXfers = 3
  Servers = {"cl", "nocl", "clsrc"}
  Musts = {FALSE, TRUE}
  ResetOnRefusal = TRUE
INVARIANTS Emit
