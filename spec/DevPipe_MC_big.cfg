SPECIFICATION Spec
CONSTANTS
  Bound = 4
  Vos = {0, 1, 2, 3, 4}
  Vds = {0, 1, 2, 3, 4, 5}
  PerDs = {1, 2, 3}
  PerOs = {1, 2, 3}
  DefPer = 2
  Scaled = FALSE
INVARIANTS TypeOK Delivered BoundedRounds
PROPERTIES Termination
