---------------------------- MODULE Tunnel_Trace ----------------------------
(* Trace validation for full TO2 runs over the real http.Handler and        *)
(* http.Transport (events of DESIGN Appendix B): every encrypted message of *)
(* a run is an Encrypt step (same type and direction, the wire form the     *)
(* cipher suite fixes, an IV not seen before in the run), the harness'      *)
(* rewriting is a Wire step, and what the receiver did is a Decrypt step    *)
(* whose outcome the property allows: an unmodified message is accepted     *)
(* with the protected content, a modified one is rejected or accepted with  *)
(* exactly the protected content; after a rejection the run fails and no    *)
(* further message is protected.  Runs are separated by reset lines; a run  *)
(* that leaves the specification is reported (BADLINE) and skipped, so one  *)
(* TLC call judges a whole batch.                                           *)
EXTENDS Tunnel, Json

VARIABLES l, seenIV, bad

tvars == <<vars, l, seenIV, bad>>

Trace == ndJsonDeserialize("trace.ndjson")
Ev == Trace[l]

TEnc ==
    /\ Ev.ev = "enc"
    /\ Ev.type \in 65..71 /\ Encrypt(1, Ev.type)
    /\ last'.dir = Ev.dir
    /\ last'.form = Ev.form                         \* FormPinned on the real wire object
    /\ Ev.iv # 0 /\ Ev.iv \notin seenIV             \* FreshIV (ids assigned by content)
    /\ seenIV' = seenIV \cup {Ev.iv}

TWire ==
    /\ Ev.ev = "wire"
    /\ IF Ev.mut = "none" THEN flight[1] # NoMsg /\ UNCHANGED vars ELSE Wire(1, Ev.mut)
    /\ UNCHANGED seenIV

(* the implementation's verdict, constrained by what the property allows *)
TDec ==
    /\ Ev.ev = "dec"
    /\ flight[1] # NoMsg
    /\ (flight[1].mut = "none") => (Ev.outcome = "accept" /\ Ev.same)
    /\ (Ev.outcome = "accept") => Ev.same
    /\ DecryptAs(1, IF Ev.outcome = "accept" THEN Accept(flight[1].pt) ELSE Reject)
    /\ UNCHANGED seenIV

TEnd ==
    /\ Ev.ev = "end"
    /\ flight[1] = NoMsg
    /\ Ev.failed <=> (failed[1] # 0)
    /\ ~Ev.failed => pos[1] = 72
    /\ UNCHANGED <<vars, seenIV>>

TReset ==
    /\ Ev.ev = "reset"
    /\ cipher' = Ev.cipher
    /\ pos' = [s \in Sessions |-> 65]
    /\ flight' = [s \in Sessions |-> NoMsg]
    /\ protected' = {} /\ onWire' = {} /\ delivered' = {}
    /\ failed' = [s \in Sessions |-> 0]
    /\ nmut' = [s \in Sessions |-> 0]
    /\ clock' = [s \in Sessions |-> 1]
    /\ last' = [act |-> "init"]
    /\ seenIV' = {}

Normal == TEnc \/ TWire \/ TDec \/ TEnd \/ TReset

TraceInit == Init /\ cipher = "A128GCM" /\ l = 1 /\ seenIV = {} /\ bad = FALSE

TraceNext ==
    /\ l <= Len(Trace)
    /\ l' = l + 1
    /\ \/ ~bad /\ Normal /\ bad' = FALSE
       \/ ~bad /\ ~ENABLED Normal /\ PrintT(<<"BADLINE", l>>) /\ bad' = TRUE /\ UNCHANGED <<vars, seenIV>>
       \/ bad /\ Ev.ev = "reset" /\ TReset /\ bad' = FALSE
       \/ bad /\ Ev.ev # "reset" /\ UNCHANGED <<vars, seenIV, bad>>

TraceSpec == TraceInit /\ [][TraceNext]_tvars

TraceAccepted ==
    LET d == TLCGet("stats").diameter - 1 IN
    /\ PrintT(<<"TRACE_HWM", d>>)
    /\ d = Len(Trace)
=============================================================================
