----------------------------- MODULE Lifecycle -----------------------------
(***************************************************************************)
(* The life of one device across ownership handovers: device              *)
(* initialisation, extension to an owner, TO2 with credential replacement  *)
(* or reuse, resale, with the exchange cut at any message (request lost,   *)
(* response lost, peer answers with an error) and the credential taken     *)
(* through its blob encoding.  Vouchers and credentials are abstracted to  *)
(* what has to agree between them: GUID, the key the header names as       *)
(* manufacturer key (whose hash the credential keeps), and the header MAC  *)
(* under the device secret.                                                *)
(*                                                                         *)
(* C03: AfterDI, AfterTO2, ReuseChangesNothing, Atomic.                    *)
(*                                                                         *)
(* Beyond C03 (Ext = TRUE): the rendezvous leg (TO0 registration by the    *)
(* current owner, expiry, TO1, TO2 with the blob obtained from TO1 -- a    *)
(* blob signed by an earlier owner makes the device abort, C07), the       *)
(* all-in-one deployment (fdo.AllInOne: DI auto-extends the voucher to the *)
(* owner and auto-registers the rendezvous blob; one database), and the    *)
(* failure path of TO2Server.Resell (the voucher is out of the store until *)
(* the caller adds it back).                                               *)
(***************************************************************************)
EXTENDS Naturals, Sequences, FiniteSets, TLC

CONSTANTS MaxSteps,      \* bound on the history length
          MaxCuts,       \* how many runs may be cut in one history
          Ext,           \* BOOLEAN: rendezvous leg, failed resale and restore are part of the alphabet
          AIOs           \* subset of BOOLEAN: deployments explored (TRUE = all-in-one, one database)

VARIABLES
    cred,        \* device credential: NoCred or [guid, mkey]
    mfgStore,    \* vouchers at the manufacturer: set of [guid, mkey, macOK, ents, owner]
    ownerStore,  \* vouchers at the owner service
    ownerKey,    \* index of the key the owner service signs with (1..)
    nextGuid,
    last,        \* outcome of the last action
    cuts, steps,
    aio,         \* this history runs on an all-in-one deployment
    rv,          \* rendezvous registrations: set of [guid, owner, live]
    blob,        \* what the device got from its last TO1: NoBlob or [owner |-> signer]
    held         \* voucher returned by a failed resale, not yet added back: NoV or a voucher

vars == <<cred, mfgStore, ownerStore, ownerKey, nextGuid, last, cuts, steps, aio, rv, blob, held>>

NoCred == [guid |-> 0, mkey |-> "none"]
OwnerName(i) == <<"o", i>>
CutKinds == {"reqlost", "resplost", "err255"}
DITypes == {10, 12}
TO2Types == {60, 62, 64, 66, 68, 70}
NoCut == [kind |-> "none", t |-> 0]
StoreFail(t) == [kind |-> "storefail", t |-> t]
DelFail == [kind |-> "delfail", t |-> 70]     \* the first DELETE on the voucher table is refused (once)
NoBlob == [owner |-> <<"none", 0>>]
NoV == [guid |-> 0]
RvLive == cred # NoCred /\ \E r \in rv : r.guid = cred.guid /\ r.live

Agrees(v, c) == c # NoCred /\ v.guid = c.guid /\ v.mkey = c.mkey /\ v.macOK
HasAgreeing(store) == \E v \in store : Agrees(v, cred)
(* storefail: the server's voucher store refuses to insert (disk full) while the message that  *)
(* persists a voucher is processed (DI.SetHMAC 12, TO2.Done 70): the message is answered with *)
(* an error and nothing may have changed.                                                     *)
ProcessedByServer(cut, t) ==    \* did the server process the message of type t of the run?
    cut = NoCut \/ cut.t > t \/ (cut.t = t /\ cut.kind \notin {"reqlost", "storefail", "delfail"})
SeenByDevice(cut, t) == cut = NoCut \/ cut.t > t   \* did the device get the honest answer to t?

Init ==
    /\ cred = NoCred /\ mfgStore = {} /\ ownerStore = {} /\ ownerKey = 1 /\ nextGuid = 1
    /\ last = [a |-> "init", ok |-> TRUE] /\ cuts = 0 /\ steps = 0
    /\ aio \in AIOs /\ rv = {} /\ blob = NoBlob /\ held = NoV

Step(a, ok, extra) == last' = [a |-> a, ok |-> ok] @@ extra /\ steps' = steps + 1

(* Device initialisation (only a device without credential is initialised). *)
DI(cut) ==
    /\ cred = NoCred
    /\ cut = NoCut \/ (cut.kind \in CutKinds /\ cut.t \in DITypes /\ cuts < MaxCuts) \/ (cut = StoreFail(12) /\ cuts < MaxCuts)
    /\ cuts' = IF cut = NoCut THEN cuts ELSE cuts + 1
    /\ LET g == nextGuid
           v == [guid |-> g, mkey |-> "mfg", macOK |-> TRUE, ents |-> 0, owner |-> "mfg"]
           stored == ProcessedByServer(cut, 12)         \* diDone persists the voucher
           done == SeenByDevice(cut, 12)                \* the device saw DI.Done
           \* all-in-one: BeforeVoucherPersist = AllInOne.Extend, AfterVoucherPersist = AllInOne.RegisterOwnerAddr
           xv == [v EXCEPT !.ents = 1, !.owner = OwnerName(ownerKey)]
       IN /\ mfgStore' = IF stored /\ ~aio THEN mfgStore \cup {v} ELSE mfgStore
          /\ ownerStore' = IF stored /\ aio THEN ownerStore \cup {xv} ELSE ownerStore
          /\ rv' = IF stored /\ aio THEN rv \cup {[guid |-> g, owner |-> OwnerName(ownerKey), live |-> TRUE]} ELSE rv
          /\ cred' = IF done THEN [guid |-> g, mkey |-> "mfg"] ELSE NoCred
          /\ nextGuid' = g + 1
          /\ Step("di", done, [cut |-> cut])
    /\ UNCHANGED <<ownerKey, aio, blob, held>>

(* The manufacturer extends the voucher through k intermediate owners to the owner service. *)
Handover(k) ==
    /\ k \in 0..2 /\ cred # NoCred /\ ~aio
    /\ \E v \in mfgStore :
         /\ v.guid = cred.guid /\ v.ents = 0
         /\ mfgStore' = mfgStore \ {v}
         /\ ownerStore' = ownerStore \cup {[v EXCEPT !.ents = k + 1, !.owner = OwnerName(ownerKey)]}
    /\ Step("handover", TRUE, [k |-> k])
    /\ UNCHANGED <<cred, ownerKey, nextGuid, cuts, aio, rv, blob, held>>

(* TO2: served only for a voucher of the device's GUID with at least one entry whose owner key *)
(* is the service's key.                                                                      *)
Servable(v) == v.guid = cred.guid /\ v.ents >= 1 /\ v.owner = OwnerName(ownerKey)
(* useblob: the device passes the blob of its last TO1 to TO2 and verifies it under the key of   *)
(* the voucher's last entry once the voucher is verified; a blob signed by anybody else makes it *)
(* abort before ProveDevice.                                                                     *)
TO2(reuse, cut, useblob) ==
    /\ cred # NoCred
    /\ useblob => blob # NoBlob
    /\ cut = NoCut \/ (cut.kind \in CutKinds /\ cut.t \in TO2Types /\ cuts < MaxCuts) \/ (cut \in {StoreFail(70), DelFail} /\ cuts < MaxCuts)
    /\ cuts' = IF cut = NoCut THEN cuts ELSE cuts + 1
    /\ IF \E v \in ownerStore : Servable(v)
       THEN LET v == CHOOSE w \in ownerStore : Servable(w)
                g == nextGuid
                blobOK == ~useblob \/ blob.owner = v.owner
                \* with credential reuse nothing is inserted, so a store that refuses inserts is not noticed
                ecut == IF cut \in {StoreFail(70), DelFail} /\ reuse THEN NoCut ELSE cut
                ownerDone == blobOK /\ ProcessedByServer(ecut, 70)    \* the owner accepted Done
                devDone == blobOK /\ SeenByDevice(ecut, 70)           \* the device saw Done2
                nv == [guid |-> g, mkey |-> OwnerName(ownerKey), macOK |-> TRUE, ents |-> 0, owner |-> OwnerName(ownerKey)]
            IN /\ ownerStore' = IF ownerDone /\ ~reuse THEN (ownerStore \ {v}) \cup {nv} ELSE ownerStore
               /\ cred' = IF devDone /\ ~reuse THEN [guid |-> g, mkey |-> OwnerName(ownerKey)] ELSE cred
               /\ nextGuid' = g + 1
               /\ Step("to2", devDone, [reuse |-> reuse, cut |-> cut, ownerDone |-> ownerDone, served |-> TRUE, useblob |-> useblob, blobOK |-> blobOK])
       ELSE /\ UNCHANGED <<ownerStore, cred, nextGuid>>
            /\ Step("to2", FALSE, [reuse |-> reuse, cut |-> cut, ownerDone |-> FALSE, served |-> FALSE, useblob |-> useblob, blobOK |-> TRUE])
    /\ UNCHANGED <<mfgStore, ownerKey, aio, rv, blob, held>>

(* Resale: the service extends the voucher of the device's GUID to the next owner, which then *)
(* runs the owner service.                                                                    *)
Resell ==
    /\ cred # NoCred
    /\ \E v \in ownerStore :
         /\ v.guid = cred.guid /\ v.owner = OwnerName(ownerKey)
         /\ ownerStore' = (ownerStore \ {v}) \cup {[v EXCEPT !.ents = v.ents + 1, !.owner = OwnerName(ownerKey + 1)]}
    /\ ownerKey' = ownerKey + 1
    /\ Step("resell", TRUE, [k |-> 0])
    /\ UNCHANGED <<cred, mfgStore, nextGuid, cuts, aio, rv, blob, held>>

(* Resale to a key the voucher cannot be extended to (another type or size): Resell has already *)
(* removed the voucher from the store and returns it with the error; until the caller adds it   *)
(* back the service does not own the device.                                                    *)
ResellBad ==
    /\ cred # NoCred /\ held = NoV
    /\ \E v \in ownerStore :
         /\ v.guid = cred.guid /\ v.owner = OwnerName(ownerKey)
         /\ ownerStore' = ownerStore \ {v}
         /\ held' = v
    /\ Step("resellbad", FALSE, [k |-> 0])
    /\ UNCHANGED <<cred, mfgStore, ownerKey, nextGuid, cuts, aio, rv, blob>>

Restore ==
    /\ held # NoV
    /\ ownerStore' = ownerStore \cup {held}
    /\ held' = NoV
    /\ Step("restore", TRUE, [k |-> 0])
    /\ UNCHANGED <<cred, mfgStore, ownerKey, nextGuid, cuts, aio, rv, blob>>

(* Resale of a device the service holds no voucher for fails and changes nothing. *)
ResellMissing ==
    /\ cred # NoCred
    /\ ~\E v \in ownerStore : v.guid = cred.guid
    /\ Step("resellmissing", FALSE, [k |-> 0])
    /\ UNCHANGED <<cred, mfgStore, ownerStore, ownerKey, nextGuid, cuts, aio, rv, blob, held>>

(* TO0: the owner service registers its address for the device's GUID; the rendezvous server   *)
(* accepts it only for a voucher whose last entry names the key that signed the blob.           *)
Register ==
    /\ cred # NoCred
    /\ IF \E v \in ownerStore : Servable(v)
       THEN /\ rv' = {r \in rv : r.guid # cred.guid} \cup {[guid |-> cred.guid, owner |-> OwnerName(ownerKey), live |-> TRUE]}
            /\ Step("register", TRUE, [k |-> 0])
       ELSE /\ UNCHANGED rv
            /\ Step("register", FALSE, [k |-> 0])
    /\ UNCHANGED <<cred, mfgStore, ownerStore, ownerKey, nextGuid, cuts, aio, blob, held>>

(* The registration of the device's GUID runs out. *)
Expire ==
    /\ RvLive
    /\ rv' = {IF r.guid = cred.guid THEN [r EXCEPT !.live = FALSE] ELSE r : r \in rv}
    /\ Step("expire", TRUE, [k |-> 0])
    /\ UNCHANGED <<cred, mfgStore, ownerStore, ownerKey, nextGuid, cuts, aio, blob, held>>

(* TO1: the device obtains the blob registered for its GUID, if the registration is alive. *)
Locate ==
    /\ cred # NoCred
    /\ IF RvLive
       THEN /\ blob' = [owner |-> (CHOOSE r \in rv : r.guid = cred.guid /\ r.live).owner]
            /\ Step("locate", TRUE, [k |-> 0])
       ELSE /\ blob' = NoBlob
            /\ Step("locate", FALSE, [k |-> 0])
    /\ UNCHANGED <<cred, mfgStore, ownerStore, ownerKey, nextGuid, cuts, aio, rv, held>>

(* The credential is written to and re-read from its blob encoding. *)
Persist ==
    /\ cred # NoCred
    /\ Step("persist", TRUE, [k |-> 0])
    /\ UNCHANGED <<cred, mfgStore, ownerStore, ownerKey, nextGuid, cuts, aio, rv, blob, held>>

Cuts(types) == {NoCut} \cup {[kind |-> k, t |-> t] : k \in CutKinds, t \in types}
                \cup {StoreFail(t) : t \in types \cap {12, 70}} \cup (IF 70 \in types THEN {DelFail} ELSE {})

Next ==
    /\ steps < MaxSteps
    /\ \/ \E c \in Cuts(DITypes) : DI(c)
       \/ \E k \in 0..2 : Handover(k)
       \/ \E r \in BOOLEAN, c \in Cuts(TO2Types) : TO2(r, c, FALSE)
       \/ Resell
       \/ Persist
       \/ /\ Ext
          /\ \/ \E r \in BOOLEAN, c \in Cuts(TO2Types) : TO2(r, c, TRUE)
             \/ ResellBad \/ Restore \/ ResellMissing
             \/ Register \/ Expire \/ Locate

Spec == Init /\ [][Next]_vars

-----------------------------------------------------------------------------
(* what the harness can observe after every action *)
(* all-in-one: manufacturer and owner share one database *)
Proj == [ok |-> last.ok, hasCred |-> cred # NoCred,
         mfgN |-> IF aio THEN Cardinality(ownerStore) ELSE Cardinality(mfgStore), ownerN |-> Cardinality(ownerStore),
         agreeM |-> IF aio THEN HasAgreeing(ownerStore) ELSE HasAgreeing(mfgStore), agreeO |-> HasAgreeing(ownerStore),
         rvLive |-> RvLive, hasBlob |-> blob # NoBlob]

AfterDI  == (last.a = "di" /\ last.ok) => IF aio THEN HasAgreeing(ownerStore) ELSE HasAgreeing(mfgStore)
(* all-in-one: after DI the device can be located and onboarded without any further step *)
AIOReady == (aio /\ last.a = "di" /\ last.ok) => (RvLive /\ \E v \in ownerStore : Servable(v))
(* a blob signed by anybody but the voucher's current owner never completes TO2 (C07, device half) *)
StaleBlobRefused == (last.a = "to2" /\ last.ok) => last.blobOK
LocateOnlyLive == [][(last'.a = "locate" /\ last'.ok) => RvLive]_vars
(* the redirect is registered only by the owner the voucher names *)
RegisteredByOwner == \A r \in rv : \E i \in 1..ownerKey : r.owner = OwnerName(i)
(* resale never loses a voucher: a held voucher is not served and comes back unchanged *)
HeldNotServed == held # NoV => held \notin ownerStore
RestoreGivesBack == [][last'.a = "restore" => (held \in ownerStore' /\ held' = NoV)]_vars
FailedResaleKeepsVoucher ==
    [][last'.a \in {"resellbad", "resellmissing"} => (ownerStore' \cup (IF held' = NoV THEN {} ELSE {held'}) = ownerStore \cup (IF held = NoV THEN {} ELSE {held}))]_vars
AfterTO2 == (last.a = "to2" /\ last.ok /\ ~last.reuse) =>
                /\ HasAgreeing(ownerStore)
                /\ \A v \in ownerStore : v.guid = cred.guid => Agrees(v, cred)
FailedRunNoCred == (last.a \in {"di"} /\ ~last.ok) => cred = NoCred

ReuseChangesNothing ==
    [][(last'.a = "to2" /\ last'.reuse) => (cred' = cred /\ ownerStore' = ownerStore)]_vars
Atomic ==
    [][(last'.a = "to2" /\ ~last'.ownerDone) => (ownerStore' = ownerStore /\ cred' = cred /\ ~last'.ok)]_vars
CredOnlyAfterDone2 ==
    [][(last'.a = "to2" /\ cred' # cred) => (last'.ok /\ last'.ownerDone /\ ~last'.reuse)]_vars
(* a successful replacement leaves the device resaleable and onboardable again *)
CanContinue ==
    (last.a = "to2" /\ last.ok /\ ~last.reuse /\ held = NoV) => ENABLED Resell
=============================================================================
