----------------------------- MODULE Lifecycle -----------------------------
(***************************************************************************)
(* The life of one device across ownership handovers: device              *)
(* initialisation, extension to an owner, TO2 with credential replacement  *)
(* or reuse, resale, with the exchange cut at any message (request lost,   *)
(* response lost, peer answers with an error) and the credential taken     *)
(* through its blob encoding.  Vouchers and credentials are abstracted to  *)
(* what has to agree between them: GUID, the key the header names as       *)
(* manufacturer key (whose hash the credential keeps), and the header MAC  *)
(* under the device secret.                                                *)
(*                                                                         *)
(* C03: AfterDI, AfterTO2, ReuseChangesNothing, Atomic.                    *)
(***************************************************************************)
EXTENDS Naturals, Sequences, FiniteSets, TLC

CONSTANTS MaxSteps,      \* bound on the history length
          MaxCuts        \* how many runs may be cut in one history

VARIABLES
    cred,        \* device credential: NoCred or [guid, mkey]
    mfgStore,    \* vouchers at the manufacturer: set of [guid, mkey, macOK, ents, owner]
    ownerStore,  \* vouchers at the owner service
    ownerKey,    \* index of the key the owner service signs with (1..)
    nextGuid,
    last,        \* outcome of the last action
    cuts, steps

vars == <<cred, mfgStore, ownerStore, ownerKey, nextGuid, last, cuts, steps>>

NoCred == [guid |-> 0, mkey |-> "none"]
OwnerName(i) == <<"o", i>>
CutKinds == {"reqlost", "resplost", "err255"}
DITypes == {10, 12}
TO2Types == {60, 62, 64, 66, 68, 70}
NoCut == [kind |-> "none", t |-> 0]

Agrees(v, c) == c # NoCred /\ v.guid = c.guid /\ v.mkey = c.mkey /\ v.macOK
HasAgreeing(store) == \E v \in store : Agrees(v, cred)
ProcessedByServer(cut, t) ==    \* did the server process the message of type t of the run?
    cut = NoCut \/ cut.t > t \/ (cut.t = t /\ cut.kind # "reqlost")
SeenByDevice(cut, t) == cut = NoCut \/ cut.t > t   \* did the device get the honest answer to t?

Init ==
    /\ cred = NoCred /\ mfgStore = {} /\ ownerStore = {} /\ ownerKey = 1 /\ nextGuid = 1
    /\ last = [a |-> "init", ok |-> TRUE] /\ cuts = 0 /\ steps = 0

Step(a, ok, extra) == last' = [a |-> a, ok |-> ok] @@ extra /\ steps' = steps + 1

(* Device initialisation (only a device without credential is initialised). *)
DI(cut) ==
    /\ cred = NoCred
    /\ cut = NoCut \/ (cut.kind \in CutKinds /\ cut.t \in DITypes /\ cuts < MaxCuts)
    /\ cuts' = IF cut = NoCut THEN cuts ELSE cuts + 1
    /\ LET g == nextGuid
           v == [guid |-> g, mkey |-> "mfg", macOK |-> TRUE, ents |-> 0, owner |-> "mfg"]
           stored == ProcessedByServer(cut, 12)         \* diDone persists the voucher
           done == SeenByDevice(cut, 12)                \* the device saw DI.Done
       IN /\ mfgStore' = IF stored THEN mfgStore \cup {v} ELSE mfgStore
          /\ cred' = IF done THEN [guid |-> g, mkey |-> "mfg"] ELSE NoCred
          /\ nextGuid' = g + 1
          /\ Step("di", done, [cut |-> cut])
    /\ UNCHANGED <<ownerStore, ownerKey>>

(* The manufacturer extends the voucher through k intermediate owners to the owner service. *)
Handover(k) ==
    /\ k \in 0..2 /\ cred # NoCred
    /\ \E v \in mfgStore :
         /\ v.guid = cred.guid /\ v.ents = 0
         /\ mfgStore' = mfgStore \ {v}
         /\ ownerStore' = ownerStore \cup {[v EXCEPT !.ents = k + 1, !.owner = OwnerName(ownerKey)]}
    /\ Step("handover", TRUE, [k |-> k])
    /\ UNCHANGED <<cred, ownerKey, nextGuid, cuts>>

(* TO2: served only for a voucher of the device's GUID with at least one entry whose owner key *)
(* is the service's key.                                                                      *)
Servable(v) == v.guid = cred.guid /\ v.ents >= 1 /\ v.owner = OwnerName(ownerKey)
TO2(reuse, cut) ==
    /\ cred # NoCred
    /\ cut = NoCut \/ (cut.kind \in CutKinds /\ cut.t \in TO2Types /\ cuts < MaxCuts)
    /\ cuts' = IF cut = NoCut THEN cuts ELSE cuts + 1
    /\ IF \E v \in ownerStore : Servable(v)
       THEN LET v == CHOOSE w \in ownerStore : Servable(w)
                g == nextGuid
                ownerDone == ProcessedByServer(cut, 70)    \* the owner accepted Done
                devDone == SeenByDevice(cut, 70)           \* the device saw Done2
                nv == [guid |-> g, mkey |-> OwnerName(ownerKey), macOK |-> TRUE, ents |-> 0, owner |-> OwnerName(ownerKey)]
            IN /\ ownerStore' = IF ownerDone /\ ~reuse THEN (ownerStore \ {v}) \cup {nv} ELSE ownerStore
               /\ cred' = IF devDone /\ ~reuse THEN [guid |-> g, mkey |-> OwnerName(ownerKey)] ELSE cred
               /\ nextGuid' = g + 1
               /\ Step("to2", devDone, [reuse |-> reuse, cut |-> cut, ownerDone |-> ownerDone, served |-> TRUE])
       ELSE /\ UNCHANGED <<ownerStore, cred, nextGuid>>
            /\ Step("to2", FALSE, [reuse |-> reuse, cut |-> cut, ownerDone |-> FALSE, served |-> FALSE])
    /\ UNCHANGED <<mfgStore, ownerKey>>

(* Resale: the service extends the voucher of the device's GUID to the next owner, which then *)
(* runs the owner service.                                                                    *)
Resell ==
    /\ cred # NoCred
    /\ \E v \in ownerStore :
         /\ v.guid = cred.guid /\ v.owner = OwnerName(ownerKey)
         /\ ownerStore' = (ownerStore \ {v}) \cup {[v EXCEPT !.ents = v.ents + 1, !.owner = OwnerName(ownerKey + 1)]}
    /\ ownerKey' = ownerKey + 1
    /\ Step("resell", TRUE, [k |-> 0])
    /\ UNCHANGED <<cred, mfgStore, nextGuid, cuts>>

(* The credential is written to and re-read from its blob encoding. *)
Persist ==
    /\ cred # NoCred
    /\ Step("persist", TRUE, [k |-> 0])
    /\ UNCHANGED <<cred, mfgStore, ownerStore, ownerKey, nextGuid, cuts>>

Cuts(types) == {NoCut} \cup {[kind |-> k, t |-> t] : k \in CutKinds, t \in types}

Next ==
    /\ steps < MaxSteps
    /\ \/ \E c \in Cuts(DITypes) : DI(c)
       \/ \E k \in 0..2 : Handover(k)
       \/ \E r \in BOOLEAN, c \in Cuts(TO2Types) : TO2(r, c)
       \/ Resell
       \/ Persist

Spec == Init /\ [][Next]_vars

-----------------------------------------------------------------------------
(* what the harness can observe after every action *)
Proj == [ok |-> last.ok, hasCred |-> cred # NoCred,
         mfgN |-> Cardinality(mfgStore), ownerN |-> Cardinality(ownerStore),
         agreeM |-> HasAgreeing(mfgStore), agreeO |-> HasAgreeing(ownerStore)]

AfterDI  == (last.a = "di" /\ last.ok) => HasAgreeing(mfgStore)
AfterTO2 == (last.a = "to2" /\ last.ok /\ ~last.reuse) =>
                /\ HasAgreeing(ownerStore)
                /\ \A v \in ownerStore : v.guid = cred.guid => Agrees(v, cred)
FailedRunNoCred == (last.a \in {"di"} /\ ~last.ok) => cred = NoCred

ReuseChangesNothing ==
    [][(last'.a = "to2" /\ last'.reuse) => (cred' = cred /\ ownerStore' = ownerStore)]_vars
Atomic ==
    [][(last'.a = "to2" /\ ~last'.ownerDone) => (ownerStore' = ownerStore /\ cred' = cred /\ ~last'.ok)]_vars
CredOnlyAfterDone2 ==
    [][(last'.a = "to2" /\ cred' # cred) => (last'.ok /\ last'.ownerDone /\ ~last'.reuse)]_vars
(* a successful replacement leaves the device resaleable and onboardable again *)
CanContinue ==
    (last.a = "to2" /\ last.ok /\ ~last.reuse) => ENABLED Resell
=============================================================================
