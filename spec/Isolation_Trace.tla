-------------------------- MODULE Isolation_Trace --------------------------
(* Trace validation for C19 (non-interference).  One trace = one mix run on *)
(* the real code (harness/concx/iso.go) in up to three phases, each on a    *)
(* freshly started server instance and with its own twin devices:           *)
(*   solo  every device alone on its own fresh instance   (the baseline)    *)
(*   seq   all devices one after the other on one instance                  *)
(*   conc  all devices at once on one instance                              *)
(* Every recorded exchange must be the step of Isolation.tla for that       *)
(* session and message type, answered with the protocol's response type, in *)
(* the interleaving that was recorded; every device's observed outcome must *)
(* be the outcome the specification state holds for it, which by            *)
(* NonInterference (an invariant evaluated in every state of the trace) is  *)
(* the outcome of its sequential run alone; and what the specification does *)
(* not determine - the size profile of its 68/69 messages - must equal what *)
(* the same configuration produced alone.  hang / crash events and failed   *)
(* device initialisations are steps of no action.                           *)
EXTENDS Isolation, Json

VARIABLES l, mode, alone, base

Trace == ndJsonDeserialize("trace.ndjson")
Ev == Trace[l]

CfgOf(r) == [kind |-> r.kind, enc |-> r.enc, reuse |-> r.reuse, rv |-> r.rv, omtu |-> r.omtu, dmtu |-> r.dmtu,
             mods |-> r.mods, vol |-> r.vol]
Fresh(c) ==
    /\ store' = [d \in Devs |-> OrigVoucher(c[d])]
    /\ srow' = [d \in Devs |-> NoRow]
    /\ dev' = [d \in Devs |-> NoDev]
    /\ pc' = [d \in Devs |-> "60"]
    /\ memo' = [k \in Kinds |-> "none"]

TMix ==
    /\ Ev.ev = "mix"
    /\ LET c == [d \in Devs |-> CfgOf(Ev.cfg[CHOOSE i \in 1..Len(Ev.cfg) : Ev.cfg[i].d = d])]
       IN cfg' = c /\ Fresh(c)
    /\ mode' = "none" /\ alone' = "none"
    /\ base' = [d \in Devs |-> <<>>]

(* a phase begins on a fresh server instance with fresh twins of every device *)
TBegin ==
    /\ Ev.ev = "begin"
    /\ mode' = Ev.mode /\ alone' = Ev.d
    /\ Fresh(cfg)
    /\ UNCHANGED <<cfg, base>>

TX ==
    /\ Ev.ev = "x"
    /\ Ev.mode = mode
    /\ (mode = "solo" => Ev.d = alone)
    /\ Ev.resp = Ev.t + 1
    /\ Exch(Ev.d, Ev.t)
    /\ UNCHANGED <<mode, alone, base>>

Observed == [reuse |-> Ev.reuse, guid |-> Ev.guid, cenc |-> Ev.cenc, alg |-> Ev.alg, venc |-> Ev.venc, vkey |-> Ev.vkey,
             agree |-> Ev.agree, rv |-> Ev.rv, vrv |-> Ev.vrv, entries |-> Ev.entries, echo |-> Ev.echo, nrecv |-> Ev.nrecv,
             oecho |-> Ev.oecho, onrecv |-> Ev.onrecv, devmod |-> Ev.devmod, w68 |-> Ev.w68, w69 |-> Ev.w69]

TOutcome ==
    /\ Ev.ev = "outcome"
    /\ Ev.mode = mode
    /\ Ev.ok /\ pc[Ev.d] = "end"
    /\ Observed = Outcome(Ev.d)
    \* data the specification does not model but the property fixes: own device info in credential and
    \* voucher, the old voucher gone exactly when replaced, module messages in order, own module list
    /\ Ev.info = "own" /\ Ev.vinfo = "own" /\ Ev.oldgone = ~Ev.reuse /\ Ev.inorder /\ Ev.supp = "own"
    /\ IF mode = "solo"
       THEN base' = [base EXCEPT ![Ev.d] = Ev.wire]
       ELSE (base[Ev.d] = <<>> \/ Ev.wire = base[Ev.d]) /\ UNCHANGED base     \* (no solo phase in this trace: nothing to compare the sizes with)
    /\ UNCHANGED <<vars, mode, alone>>

TDis ==
    /\ Ev.ev = "dis" /\ Ev.failed = 0
    /\ UNCHANGED <<vars, mode, alone, base>>

TraceInit == InitWith([d \in Devs |-> AnyCfg]) /\ l = 1 /\ mode = "none" /\ alone = "none" /\ base = [d \in Devs |-> <<>>]
TraceNext ==
    /\ l <= Len(Trace)
    /\ l' = l + 1
    /\ (TMix \/ TBegin \/ TX \/ TOutcome \/ TDis)
TraceSpec == TraceInit /\ [][TraceNext]_<<vars, l, mode, alone, base>>

TraceAccepted ==
    LET d == TLCGet("stats").diameter - 1 IN
    /\ PrintT(<<"TRACE_HWM", d>>)
    /\ d = Len(Trace)
=============================================================================
