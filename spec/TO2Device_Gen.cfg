SPECIFICATION Spec
CONSTANTS
  ChainLens = {1, 2}
  MaxAtoms = 1
INVARIANTS Emit
