------------------------------ MODULE Cose_Gen ------------------------------
(* Behaviour generation for Cose.tla: every verified state is printed as   *)
(* "BEHAVIOUR <json>" = configuration (with the table values the runner    *)
(* must use: algorithm id, hash, key kind, signature length, context       *)
(* string, tag), the alterations applied, and the expected verdict class   *)
(* ("accept": Verify must return TRUE; "reject": FALSE or an error).       *)
EXTENDS Cose, Json

AlterJson(t) == [field |-> t.field, value |-> t.value,
                 id |-> IF t.field = "algid" /\ t.value \in AllAlgs THEN AlgId(t.value) ELSE 0]

GenEmit ==
    /\ (phase = "verified" /\ cfg.opts = DefaultOpts) =>
        PrintT("BEHAVIOUR " \o ToJson(
            [cfg |-> [alg |-> cfg.alg, algid |-> AlgId(cfg.alg), hash |-> HashOf(cfg.alg), family |-> Family(cfg.alg),
                      key |-> KeyFor(cfg.alg), siglen |-> SigLen(cfg.alg), struct |-> Structure(cfg.alg),
                      context |-> Context(Structure(cfg.alg)), tag |-> Tag(Structure(cfg.alg)),
                      pk |-> cfg.pk, det |-> cfg.det, aad |-> cfg.aad],
             alters |-> [k \in 1..Len(trail) |-> AlterJson(trail[k])],
             expect |-> IF verdict = "TRUE" THEN "accept" ELSE "reject"]))
    \* signer options: one line per outcome the specification allows for (key, options, payload kind, detached, aad);
    \* "refused": Sign returns an error; "verifies": the product, labelled `label`, verifies with the matching key
    /\ (phase \in {"verified", "refused"} /\ cfg.opts # DefaultOpts) =>
        PrintT("BEHAVIOUR " \o ToJson(
            [signopts |-> [key |-> cfg.key, kind |-> cfg.opts.kind, hash |-> cfg.opts.hash, salt |-> cfg.opts.salt,
                           pk |-> cfg.pk, det |-> cfg.det, aad |-> cfg.aad],
             outcome |-> IF phase = "refused" THEN "refused" ELSE "verifies",
             label |-> IF phase = "refused" THEN "none" ELSE cfg.alg,
             labelid |-> IF phase = "refused" THEN 0 ELSE LabelId(cfg.alg)]))
=============================================================================
