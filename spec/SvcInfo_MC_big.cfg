SPECIFICATION MCSpec
CONSTANTS
  OModSets <- MC_OModSetsBig
  DModSets <- MC_DModSetsBig
  Msgs = {"p"}
  MaxN = 2
  MaxW = 3
  MaxX = 7
INVARIANTS TypeOK RecvLeSent Conservation CompleteAtDone SequentialOwners OnlyActiveReceive UnknownStayInactive DoneExactly EndsWithDone
