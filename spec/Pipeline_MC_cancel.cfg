SPECIFICATION Spec
CONSTANTS
  Ks = {0, 1, 2}
  ScriptIds = {2, 3, 7, 9}
  Want = 2
  Cancels = {TRUE}
  Lates = {FALSE}
  ClosingCheck = FALSE
  Stops = {FALSE, TRUE}
INVARIANTS TypeOK
PROPERTIES Termination
