SPECIFICATION Spec
CONSTANTS
  Ks = {0, 1, 2}
  ScriptIds = {2, 3, 7}
  Want = 2
  Cancels = {TRUE}
  Lates = {FALSE}
  Stops = {FALSE, TRUE}
INVARIANTS TypeOK
PROPERTIES Termination
