----------------------------- MODULE Fsim_Trace -----------------------------
(* Trace validation for C17: what the receiving fsim module of a real TO2 run was told (length,        *)
(* digest), what it was given (data chunks, compared with the source at their position by the harness   *)
(* wrapper) and what the run left behind (destination, reported failure, TO2 result) must be a           *)
(* behaviour of Fsim.tla: the `end` event must be the outcome of Finalize (or Stall) in the state the     *)
(* recorded announcements and chunks lead to.  A run whose MTU is below what the fixed announcements of  *)
(* the module need (`floor`) may fail or succeed; only the safety invariants are judged for it.          *)
EXTENDS Fsim, Json

VARIABLES l, skip

Trace == ndJsonDeserialize("trace.ndjson")
Ev == Trace[l]

AllOK(c)     == \A i \in 1..Len(c) : c[i][2]
FirstFail(c) == LET bad == {i \in 1..Len(c) : ~c[i][2]} IN
                IF bad = {} THEN "ok" ELSE c[CHOOSE i \in bad : \A j \in bad : i <= j][1]

Step(chk, act) ==
    IF AllOK(chk)
    THEN act /\ skip' = FALSE
    ELSE /\ PrintT(<<"TRACE_DIAG", l, Ev.run, FirstFail(chk)>>)
         /\ skip' = TRUE
         /\ UNCHANGED vars

TStart ==
    /\ sc' = [mod |-> Ev.mod, len |-> Ev.len, chunk |-> Ev.chunk, cor |-> Ev.cor, k |-> 0, d |-> 0, floor |-> Ev.floor]
    /\ stage' = "init" /\ annLen' = -1 /\ annDig' = "none"
    /\ sent' = 0 /\ nchunk' = 0 /\ rcvLen' = 0 /\ taint' = FALSE
    /\ dest' = "absent" /\ result' = "none"
    /\ skip' = FALSE

(* The outcome the specification allows in the state reached, against what the run left behind.          *)
Failed(e)  == e.reported \/ e.to2_err
ChkEnd(e) ==
    IF sc.floor
    THEN << <<"wrong_or_partial_file_at_destination", e.dest \in {"absent", "same"}>>,
            <<"success_without_identical_file", (e.dest = "same") \/ Failed(e)>> >>
    ELSE IF Matches
    THEN << <<"verified_transfer_not_placed", e.dest = "same" \/ ~RcvIsSource>>,
            <<"verified_transfer_placed_wrong_content", e.dest # "other">>,
            <<"verified_transfer_reported_failure", ~Failed(e)>> >>
    ELSE << <<"file_at_destination_despite_mismatch", e.dest = "absent">>,
            <<"mismatch_not_reported", Failed(e)>>,
            <<"honest_transfer_failed", sc.cor # "none">> >>

TEnd(e) ==
    /\ stage' = "end"
    /\ dest' = e.dest
    /\ result' = IF Failed(e) THEN "failure" ELSE "success"
    /\ UNCHANGED <<sc, annLen, annDig, sent, nchunk, rcvLen, taint>>

Dispatch ==
    CASE Ev.ev = "announce_len" -> Step(<< <<"length_announced_twice", annLen = -1>> >>, AnnounceLen(Ev.len) /\ UNCHANGED sent)
      [] Ev.ev = "announce_dig" -> Step(<< <<"digest_announced_twice", annDig = "none">> >>, AnnounceDig(Ev.digok) /\ UNCHANGED sent)
      [] Ev.ev = "data"         -> Step(<< <<"data_after_end", stage # "end">> >>, Data(Ev.n, Ev.same) /\ UNCHANGED sent)
      [] Ev.ev = "end"          -> Step(ChkEnd(Ev), TEnd(Ev))
      [] Ev.ev = "crash"        -> Step(<< <<"crash", FALSE>> >>, UNCHANGED vars)
      [] OTHER                  -> UNCHANGED <<vars, skip>>

TraceInit ==
    /\ sc = [mod |-> "none", len |-> 0, chunk |-> 0, cor |-> "none", k |-> 0, d |-> 0, floor |-> FALSE]
    /\ stage = "init" /\ annLen = -1 /\ annDig = "none"
    /\ sent = 0 /\ nchunk = 0 /\ rcvLen = 0 /\ taint = FALSE
    /\ dest = "absent" /\ result = "none"
    /\ l = 1 /\ skip = TRUE

TraceNext ==
    /\ l <= Len(Trace)
    /\ l' = l + 1
    /\ IF Ev.ev = "start" THEN TStart
       ELSE IF skip THEN UNCHANGED <<vars, skip>>
       ELSE Dispatch

TraceSpec == TraceInit /\ [][TraceNext]_<<vars, l, skip>>

(* In a recorded run the invariants that speak about the outcome are those of the property itself.        *)
TraceSafety == (stage = "end") => (dest \in {"absent", "same"} /\ (result = "success" /\ ~sc.floor => dest = "same"))

TraceAccepted ==
    LET d == TLCGet("stats").diameter - 1 IN
    /\ PrintT(<<"TRACE_HWM", d>>)
    /\ d = Len(Trace)
=============================================================================
