----------------------------- MODULE Fsim_Trace -----------------------------
(* Trace validation for C17.  A run is one real TO2 SESSION: transfers one after the other through one    *)
(* instance of the device module.  For every transfer: what the receiving fsim module was told (length,   *)
(* digest, for wget the Content-Length of the HTTP response), what it was given (data chunks / pieces of  *)
(* the HTTP body, compared with the source at their position by the harness) and what the transfer left   *)
(* behind when the next one began or the session was over (the file under its name at the destination,    *)
(* reported failure, temp files) must be a behaviour of Fsim.tla: the `xend` event must be the outcome of  *)
(* Finalize (or Stall) in the state the recorded announcements and chunks of THIS transfer lead to — the   *)
(* module being idle when the transfer began, as Finalize leaves it — and the module must be idle again    *)
(* if the session goes on.  At the end of the session the files at the destination are exactly those of    *)
(* the transfers that placed one.  A run whose MTU is below what the fixed announcements of the module     *)
(* need (`floor`) may fail or succeed; only the safety invariants are judged for it.                       *)
EXTENDS Fsim, Json

VARIABLES l, skip

Trace == ndJsonDeserialize("trace.ndjson")
Ev == Trace[l]

AllOK(c)     == \A i \in 1..Len(c) : c[i][2]
FirstFail(c) == LET bad == {i \in 1..Len(c) : ~c[i][2]} IN
                IF bad = {} THEN "ok" ELSE c[CHOOSE i \in bad : \A j \in bad : i <= j][1]

Step(chk, act) ==
    IF AllOK(chk)
    THEN act /\ skip' = FALSE
    ELSE /\ PrintT(<<"TRACE_DIAG", l, Ev.run, FirstFail(chk)>>)
         /\ skip' = TRUE
         /\ UNCHANGED vars

(* a transfer whose outcome is not the specification's is reported; the session is judged further: what the  *)
(* transfer left behind is what the next one starts from                                                   *)
StepOn(chk, act) ==
    /\ IF AllOK(chk) THEN TRUE ELSE PrintT(<<"TRACE_DIAG", l, Ev.run, FirstFail(chk)>>)
    /\ act /\ skip' = FALSE

NoScenario(m, floor) == [mod |-> m, len |-> 0, chunk |-> 0, cor |-> "none", k |-> 0, d |-> 0, srv |-> "na", floor |-> floor]

(* a session begins: a fresh module instance, nothing at the destination *)
TStart ==
    /\ sess' = [mod |-> Ev.mod, must |-> Ev.must]
    /\ xi' = 0 /\ sstage' = "run" /\ placed' = {} /\ mTemp' = FALSE /\ mCarry' = 0
    /\ sc' = NoScenario(Ev.mod, Ev.floor)
    /\ stage' = "end" /\ annLen' = -1 /\ annDig' = "none" /\ httpLen' = -2
    /\ sent' = 0 /\ nchunk' = 0 /\ rcvLen' = 0 /\ taint' = FALSE
    /\ dest' = "absent" /\ result' = "none" /\ stalled' = FALSE
    /\ skip' = FALSE

(* the next transfer of the session begins (NextXfer): the module is as Finalize left it *)
TXfer ==
    /\ xi' = Ev.i
    /\ sc' = [mod |-> sess.mod, len |-> Ev.len, chunk |-> Ev.chunk, cor |-> Ev.cor, k |-> 0, d |-> 0, srv |-> Ev.srv, floor |-> sc.floor]
    /\ stage' = "init" /\ annLen' = -1 /\ annDig' = "none" /\ httpLen' = -2
    /\ sent' = 0 /\ nchunk' = 0 /\ rcvLen' = 0 /\ taint' = FALSE
    /\ dest' = "absent" /\ result' = "none" /\ stalled' = FALSE
    /\ mCarry' = 0 /\ mTemp' = mTemp
    /\ UNCHANGED <<sess, sstage, placed>>

(* The outcome the specification allows in the state reached, against what the transfer left behind.     *)
Failed(e)  == e.reported \/ e.to2_err
GoesOn(e)  == ~Failed(e) \/ (sess.mod = "download" /\ ~sess.must /\ ~e.stalled /\ ~e.to2_err)     \* Continues, on what was observed
ChkOutcome(e) ==
    IF sc.floor \/ (Matches /\ Short)
    THEN << <<"wrong_or_partial_file_at_destination", e.dest \in {"absent", "same"}>>,
            <<"success_without_identical_file", (e.dest = "same") \/ Failed(e)>> >>
    ELSE IF Matches
    THEN << <<"verified_transfer_not_placed", e.dest = "same" \/ ~RcvIsSource>>,
            <<"verified_transfer_placed_wrong_content", e.dest # "other">>,
            <<"verified_transfer_reported_failure", ~Failed(e)>> >>
    ELSE << <<"file_at_destination_despite_mismatch", e.dest = "absent">>,
            <<"mismatch_not_reported", Failed(e)>>,
            <<"honest_transfer_failed", sc.cor # "none" /\ ~Masked>> >>
(* A temporary file left behind by a finalized transfer is recorded (e.tmp_left, counted in the evidence) *)
(* but not judged: the property speaks about the destination only.                                       *)
ChkEnd(e) == ChkOutcome(e)

TEnd(e) ==
    /\ stage' = "end"
    /\ dest' = e.dest
    /\ result' = IF Failed(e) THEN "failure" ELSE "success"
    /\ stalled' = e.stalled
    /\ placed' = IF e.dest = "same" THEN placed \cup {xi} ELSE placed
    /\ mTemp' = (e.tmp_left > 0) /\ mCarry' = 0
    /\ UNCHANGED <<sess, xi, sstage, sc, annLen, annDig, httpLen, sent, nchunk, rcvLen, taint>>

(* the session is over: the destination holds the files of the transfers that placed one, intact, and nothing else *)
SeqSet(s) == {s[j] : j \in DOMAIN s}
ChkSession(e) ==
    << <<"unexpected_file_at_destination", Len(e.stray) = 0>>,
       <<"file_of_earlier_transfer_damaged", Len(e.damaged) = 0>>,
       <<"file_of_earlier_transfer_lost_or_resurrected", SeqSet(e.intact) = placed>> >>

TOver ==
    /\ sstage' = "over"
    /\ UNCHANGED <<sess, xi, placed, mTemp, mCarry, xvars>>

Mine == Ev.i = xi
Dispatch ==
    CASE Ev.ev = "xfer"         -> Step(<< <<"transfer_out_of_order", Ev.i = xi + 1 /\ stage = "end" /\ sstage = "run">> >>, TXfer)
      [] Ev.ev = "announce_len" -> Step(<< <<"event_of_another_transfer", Mine>>, <<"length_announced_twice", annLen = -1>> >>, AnnounceLen(Ev.len) /\ UNCHANGED sent)
      [] Ev.ev = "announce_dig" -> Step(<< <<"event_of_another_transfer", Mine>>, <<"digest_announced_twice", annDig = "none">> >>, AnnounceDig(Ev.digok) /\ UNCHANGED sent)
      [] Ev.ev = "http_len"     -> Step(<< <<"event_of_another_transfer", Mine>>, <<"response_header_twice", httpLen = -2>> >>, AnnounceHttp(Ev.len) /\ UNCHANGED sent)
      [] Ev.ev = "data"         -> Step(<< <<"event_of_another_transfer", Mine>>, <<"data_after_end", stage # "end">> >>, Data(Ev.n, Ev.same) /\ UNCHANGED sent)
      [] Ev.ev = "xend"         -> IF Mine /\ stage # "end"
                                   THEN StepOn(ChkEnd(Ev), TEnd(Ev))
                                   ELSE Step(<< <<"event_of_another_transfer", Mine>>, <<"transfer_ended_twice", stage # "end">> >>, UNCHANGED vars)
      [] Ev.ev = "end"          -> Step(ChkSession(Ev), TOver)
      [] Ev.ev = "crash"        -> Step(<< <<"crash", FALSE>> >>, UNCHANGED vars)
      [] OTHER                  -> UNCHANGED <<vars, skip>>

TraceInit ==
    /\ sess = [mod |-> "none", must |-> FALSE]
    /\ xi = 0 /\ sstage = "over" /\ placed = {} /\ mTemp = FALSE /\ mCarry = 0
    /\ sc = NoScenario("none", FALSE)
    /\ stage = "end" /\ annLen = -1 /\ annDig = "none" /\ httpLen = -2
    /\ sent = 0 /\ nchunk = 0 /\ rcvLen = 0 /\ taint = FALSE
    /\ dest = "absent" /\ result = "none" /\ stalled = FALSE
    /\ l = 1 /\ skip = TRUE

TraceNext ==
    /\ l <= Len(Trace)
    /\ l' = l + 1
    /\ IF Ev.ev = "start" THEN TStart
       ELSE IF skip THEN UNCHANGED <<vars, skip>>
       ELSE Dispatch

TraceSpec == TraceInit /\ [][TraceNext]_<<vars, l, skip>>

(* In a recorded run the invariants that speak about the outcome are those of the property itself; every   *)
(* violation of TraceSafety is reported by ChkOutcome first (the state then records what was observed, so   *)
(* that the rest of the session is judged), which is why Fsim_Trace.cfg does not list it.                   *)
TraceSafety == (stage = "end" /\ xi > 0) => (dest \in {"absent", "same"} /\ (result = "success" /\ ~sc.floor => dest = "same"))
TraceIdle   == (stage = "init") => mCarry = 0

TraceAccepted ==
    LET d == TLCGet("stats").diameter - 1 IN
    /\ PrintT(<<"TRACE_HWM", d>>)
    /\ d = Len(Trace)
=============================================================================
