\* behaviours by -simulate: all leaves, depth 5, up to 12 nodes
SPECIFICATION GenSpec
CONSTANTS
  Ints <- WideInts
  Strs <- WideStrs
  Tags <- WideTags
  Simples <- AllSimples
  MaxStack = 6
  MaxNodes = 12
  MaxDepth = 5
  MaxArr = 4
  MaxPairs = 3
  AllowWrap = TRUE
INVARIANTS Theorems Emit
