SPECIFICATION GenSpec
CONSTANTS
  OModSets <- Gen_OModSets
  DModSets <- Gen_DModSets
  Msgs = {"p", "q"}
  MaxN = 1
  MaxW = 10
  MaxX = 16
INVARIANTS Emit
