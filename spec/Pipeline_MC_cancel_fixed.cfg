SPECIFICATION Spec
CONSTANTS
  Ks = {0, 1, 2}
  ScriptIds = {1, 2, 3, 4, 5, 7, 8, 9, 10}
  Want = 2
  Cancels = {TRUE}
  Lates = {FALSE}
  ClosingCheck = TRUE
  Stops = {FALSE, TRUE}
INVARIANTS TypeOK NoPanic
PROPERTIES Termination
