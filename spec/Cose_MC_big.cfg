\* thorough: every subset of the seven alterable fields, each with every value of its alphabet
SPECIFICATION Spec
CONSTANTS
  Algs = {"ES256", "ES384", "RS256", "RS384", "PS256", "PS384", "HMAC256", "HMAC384"}
  PayloadKinds = {"empty", "raw", "large", "nested"}
  MaxAlter = 7
  OptsKeys = {"P-256", "P-384", "P-521", "RSA-2048", "RSA-3072"}
VIEW View
INVARIANTS TypeOK VerifyExact HonestVerifies AlteredNeverVerifies AlterationsDiffer CoversAll SignedOrRefused OptsVerify
