SPECIFICATION Spec
CONSTANTS SameKind = TRUE
INVARIANTS Emit
