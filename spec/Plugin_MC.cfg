SPECIFICATION Spec
CONSTANTS
  MaxLines = 6
  Roles = {"device", "owner"}
INVARIANTS TypeOK MsgsHaveNames RoleResults ClosedOnDelivery
PROPERTIES StoppedIsFinal
