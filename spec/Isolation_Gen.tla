--------------------------- MODULE Isolation_Gen ---------------------------
(* Mix generation for C19 (tlc -simulate): the configurations of the devices *)
(* of a mix are drawn one device at a time, at random, from Cfgs; a mix is   *)
(* printed when  *)
(* it is one in which sessions could interfere: some devices share a key     *)
(* kind and differ in the encoding of the key in their vouchers, and every   *)
(* other per-voucher / per-session attribute takes at least two values.      *)
EXTENDS Isolation, Json

VARIABLE picked     \* sequence of [d, cfg] in the order of Order

N == Cardinality(Devs)
ASSUME Devs = {"d" \o ToString(i) : i \in 1..N}

GenInit == InitWith([d \in Devs |-> AnyCfg]) /\ picked = <<>>
GenNext ==
    /\ Len(picked) < N
    /\ \E c \in {RandomElement(Cfgs)} : picked' = Append(picked, [d |-> "d" \o ToString(Len(picked) + 1)] @@ c)
    /\ UNCHANGED vars
GenSpec == GenInit /\ [][GenNext]_<<vars, picked>>

Vals(f(_)) == {f(picked[i]) : i \in 1..Len(picked)}
Varies(f(_)) == Cardinality(Vals(f)) >= 2
KindOf(p) == p.kind   EncOf(p) == p.enc   ReuseOf(p) == p.reuse   RvOf(p) == p.rv
OMtuOf(p) == p.omtu   DMtuOf(p) == p.dmtu ModsOf(p) == p.mods     VolOf(p) == p.vol

(* sessions that could take each other's owner key: same kind, different encoding, both replacing *)
SharedKindOtherEnc ==
    \E i, j \in 1..Len(picked) : picked[i].kind = picked[j].kind /\ picked[i].enc # picked[j].enc
                                 /\ ~picked[i].reuse /\ ~picked[j].reuse
Interfering ==
    /\ SharedKindOtherEnc
    /\ (Cardinality(Kinds) >= 2 => Varies(KindOf))
    /\ Varies(ReuseOf) /\ Varies(RvOf) /\ Varies(OMtuOf) /\ Varies(DMtuOf) /\ Varies(ModsOf)
    /\ Cardinality(Vals(EncOf)) >= (IF N >= 4 THEN 3 ELSE 2)
    /\ \E i \in 1..Len(picked) : picked[i].omtu # picked[i].dmtu

Emit == (Len(picked) = N /\ Interfering) => PrintT("BEHAVIOUR " \o ToJson(picked))
=============================================================================
