------------------------------ MODULE Command ------------------------------
(***************************************************************************)
(* The service-info module pair fdo.command of /repo/fsim (check X02):      *)
(* fsim.RunCommand (command_owner.go, owner module) and fsim.Command        *)
(* (command_device.go, device module), one command execution after the      *)
(* other inside the 68/69 loop of one TO2 session.                          *)
(*                                                                         *)
(* The machine is written like the code: one action per message a module    *)
(* sends or is handed.                                                      *)
(*   owner, inside one ProduceInfo call (oPc):  OCall, OSendCommand         *)
(*     (active + command), OSendArgs (one chunk per 69, as much as fits),    *)
(*     OSendMayFail, OSendRetOut, OSendRetErr, OSendExecute, OSendSig,       *)
(*     OReturn (blockPeer / moduleDone);                                     *)
(*   device (Receive):  DRecvCommand, DRecvArgs, DRecvMayFail, DRecvRetOut,  *)
(*     DRecvRetErr, DRecvExecute (starts the process, or fails), DRecvSig;   *)
(*   device (Yield):  DYield = exit check, then the complete lines of the    *)
(*     requested streams (chunks of at most OwnCap units, one 68 each), then *)
(*     exitcode or the error that ends TO2;                                  *)
(*   owner (HandleInfo):  OHandleActive, OHandleStream, OHandleExit.         *)
(* The environment is part of the machine: the PROCESS (PWrite: the next     *)
(* write of its program; PWait/PExit/PReact/PTimeout: how it ends), the      *)
(* owner APPLICATION (OAppSignal puts a signal on RunCommand.Signals once    *)
(* the command waits for it), the device POLICY (fsim.Command has no         *)
(* allow-list; its only hook is Transform, which rewrites name and args:     *)
(* "none" no hook, "wrap" the hook runs the command through the device's     *)
(* wrapper, "refuse" the hook turns the command into one that cannot be      *)
(* started), and the SESSION: up to MaxCmds commands, one RunCommand each,    *)
(* through ONE instance of fsim.Command (TO2 calls Transition only when the   *)
(* active state changes, so nothing but the module itself resets it).        *)
(*                                                                         *)
(* Streams (C16 style).  What the process wrote to a stream is a number of   *)
(* units (lines); a chunk on the wire is [off, k] = units off+1..off+k of    *)
(* the source; a receiver's view of a stream is [n, taint]: n units, taint    *)
(* iff some chunk did not continue the source where the receiver stood        *)
(* (loss, duplication, reordering, foreign bytes).  "Exactly the bytes the    *)
(* command wrote, in order, each once" is n = written /\ ~taint.             *)
(*                                                                         *)
(* What the code documents and the specification states:                    *)
(*   RunCommand.MayFail: "If false, Device will terminate TO2 on error (FDO  *)
(*     message 255); otherwise device will send exitcode and continue to     *)
(*     process ServiceInfo."                                                *)
(*   RunCommand.Stdout/Stderr: "If set, stdout will be requested from the    *)
(*     device and written to this writer"; the owner module refuses a stream  *)
(*     it did not request.                                                   *)
(*   RunCommand.ExitChan: "the exit code will be sent on this channel".      *)
(*   Command.Yield: exit is checked before draining "to avoid race           *)
(*     conditions where output is lost"; cborEncodeBuffer: "ensuring that    *)
(*     partial lines are not written" (held back while the process runs).    *)
(*   Command.Timeout: "Exceeding this time will result in the module sending *)
(*     an error."                                                            *)
(*   execute without a command: "no command was given to execute"; a second  *)
(*     execute: "received execute twice"; sig before execute: error.         *)
(*                                                                         *)
(* Deliberate deviations / choices, named:                                  *)
(*   D1 A command that cannot be started (empty name, no such program,       *)
(*      refused by the device's Transform) is an ERROR of Receive(execute):   *)
(*      TO2 ends whatever MayFail says, nothing ran.  MayFail covers only the *)
(*      exit status of a command that ran.  (That is what execute() does;     *)
(*      the doc comment of MayFail does not distinguish.)                     *)
(*   D2 A process killed by a signal has status Sig (-1, what Go's            *)
(*      ProcessState.ExitCode() reports; not 128+n).  Conformance only fixes  *)
(*      "non-zero".                                                          *)
(*   D3 The window between the exit check and the draining in Yield is not    *)
(*      a step of its own: output written in the window is sent by this       *)
(*      Yield and the exit is seen by the next one, which is the behaviour of *)
(*      a process that exits right after the Yield.                           *)
(*   D4 When Yield ends TO2 (non-zero exit, MayFail = false) the chunks it    *)
(*      wrote before may or may not have left; the model drops them.  For a   *)
(*      command that does not complete only "prefix, never foreign bytes" is  *)
(*      stated (StreamsArePrefixes).                                         *)
(*   D5 Byte capacities (Producer.Available, the 100-byte reserve before the  *)
(*      flags) are abstracted to DevCap / OwnCap units per message.           *)
(*   D6 sig is sent by the owner only after execute and handled by the device *)
(*      only while a command runs; a signal for a process that has already    *)
(*      exited (os: process already finished) is outside the model: the       *)
(*      application queues the signal while the command waits for it.         *)
(*   D7 Timeout scenarios are only generated with MayFail = false (the doc    *)
(*      of Timeout promises an error; with MayFail it is open whether the     *)
(*      kill counts as an exit status).                                      *)
(*   D8 see Compatible.                                                      *)
(*                                                                         *)
(* ResetBetween = FALSE is a sensitivity probe of the model only: a device   *)
(* module whose reset keeps the request flags (may_fail, return_stdout,       *)
(* return_stderr) must violate OutcomeAsDocumented / DeviceIdleBetween.      *)
(***************************************************************************)
EXTENDS Integers, Sequences, FiniteSets, TLC

CONSTANTS
    MaxCmds,       \* commands per session (through one device module instance)
    Policies,      \* subset of {"none", "wrap", "refuse"}
    Names,         \* subset of {"sh", "empty", "nosuch"}
    Progs,         \* subset of {"none", "o1", "e1", "obig", "omany", "mix", "otail", "ebig"}
    Ends,          \* subset of {"exit0", "exitN", "selfkill", "sigtrap", "sigkill", "timeout"}
    ArgUnits,      \* sizes of the marshalled args, in units (>= 1)
    DevCap,        \* units of args one 69 carries (device receive MTU)
    OwnCap,        \* units of output one 68 carries (owner receive MTU)
    Requests,      \* subset of {"-", "o", "e", "oe", "m", "mo", "me", "moe"}: m = MayFail, o = Stdout set, e = Stderr set
    ResetBetween   \* TRUE: as the code; FALSE: probe

Sig    == -1       \* status of a process killed by a signal (D2)
NoExit == -99
N      == 3        \* the non-zero exit code of the scenarios

VARIABLES
    policy, ncmds,                 \* the session: device policy, number of commands planned
    xi, sstage, sc, cstage, res,   \* current command: number, session stage, scenario, stage, result
    turn, o2d, d2o,                \* 68/69 loop: whose turn, messages on their way
    oPc, room, oBlock,             \* owner module inside ProduceInfo: program counter, room left in this 69, blockPeer
    oSentCommand, oArgsLeft, oSentExecute, oDone, oSig, oGot, oExit,
    dActive, dArg0, dArgs, dMayFail, dWantOut, dWantErr, dCmd, dSent, dExecs,
    pState, pPc, written, tailOpen, pExit, pSignalled, pWrapped

sessvars == <<policy, ncmds, xi, sstage, sc, cstage, res>>
loopvars == <<turn, o2d, d2o>>
ovars    == <<oPc, room, oBlock, oSentCommand, oArgsLeft, oSentExecute, oDone, oSig, oGot, oExit>>
dvars    == <<dActive, dArg0, dArgs, dMayFail, dWantOut, dWantErr, dCmd, dSent, dExecs>>
pvars    == <<pState, pPc, written, tailOpen, pExit, pSignalled, pWrapped>>
vars     == <<sessvars, loopvars, ovars, dvars, pvars>>

Min(a, b) == IF a < b THEN a ELSE b
Msg(m, a, b) == [m |-> m, a |-> a, b |-> b]
Zero2 == [fd \in {1, 2} |-> 0]
Clean == [fd \in {1, 2} |-> [n |-> 0, taint |-> FALSE]]

(* the programs: a sequence of writes; [fd, n, tail]: n units, the last of them unterminated iff tail *)
W(fd, n, tail) == [fd |-> fd, n |-> n, tail |-> tail]
Prog(p) ==
    CASE p = "none"  -> <<>>
      [] p = "o1"    -> <<W(1, 1, FALSE)>>
      [] p = "e1"    -> <<W(2, 1, FALSE)>>
      [] p = "obig"  -> <<W(1, OwnCap + 1, FALSE)>>                  \* one write larger than one message
      [] p = "ebig"  -> <<W(2, OwnCap + 1, FALSE)>>
      [] p = "omany" -> <<W(1, 1, FALSE), W(1, 1, FALSE), W(1, 1, FALSE)>>   \* many small writes
      [] p = "mix"   -> <<W(1, 1, FALSE), W(2, 1, FALSE), W(1, 1, FALSE), W(2, 1, FALSE)>>   \* interleaved
      [] p = "otail" -> <<W(1, 2, TRUE)>>                             \* a line, then an unterminated tail

Scenarios ==
    {[name |-> nm, prog |-> p, end |-> e, mayFail |-> r \in {"m", "mo", "me", "moe"}, wantOut |-> r \in {"o", "oe", "mo", "moe"},
      wantErr |-> r \in {"e", "oe", "me", "moe"}, args |-> a] :
        nm \in Names, p \in Progs, e \in Ends, r \in Requests, a \in ArgUnits}

MinArgs == CHOOSE a \in ArgUnits : \A b \in ArgUnits : a <= b
FirstOf(S, pref) == IF pref \in S THEN pref ELSE CHOOSE x \in S : TRUE
Canonical(s) ==      \* parameters that cannot matter are pinned
    /\ (s.name # "sh" => s.prog = FirstOf(Progs, "none") /\ s.end = FirstOf(Ends, "exit0") /\ s.args = MinArgs)
    /\ (s.end = "timeout" => ~s.mayFail)                                 \* D7
    /\ (s.args # MinArgs => s.prog = FirstOf(Progs, "none"))             \* the size of the args and the output are independent

(* D8: under the policy "wrap" the device's wrapper is what fsim.Command starts; a program that does not exist  *)
(* is then the wrapper's exit status (127), a case of exitN, and is not generated as a scenario of its own *)
Compatible(pol, s) == ~(pol = "wrap" /\ s.name = "nosuch")

(* ---- what the documentation promises for a scenario ---- *)
Startable(pol, s) == s.name = "sh" /\ pol # "refuse"
Status(s) == CASE s.end \in {"exit0", "sigtrap"} -> 0
               [] s.end = "exitN" -> N
               [] OTHER -> Sig
WritesOf(s, fd) ==          \* units the command writes to fd over its whole life
    LET p == Prog(s.prog)
        RECURSIVE Sum(_)
        Sum(i) == IF i > Len(p) THEN 0 ELSE (IF p[i].fd = fd THEN p[i].n ELSE 0) + Sum(i + 1)
    IN Sum(1) + (IF s.end = "sigtrap" /\ fd = 1 THEN 1 ELSE 0)
Expected(pol, s) ==
    IF ~Startable(pol, s) THEN "fail"                                    \* D1
    ELSE IF Status(s) = 0 \/ s.mayFail THEN "done" ELSE "fail"

(* ======================= owner module: fsim.RunCommand ======================= *)
OwnerInit ==
    /\ oPc = "idle" /\ room = 0 /\ oBlock = FALSE
    /\ oSentCommand = FALSE /\ oSentExecute = FALSE /\ oDone = FALSE /\ oSig = "no"
    /\ oGot = Clean /\ oExit = NoExit

Send(q, m) == Append(q, m)

(* ProduceInfo is called *)
OCall ==
    /\ oPc = "idle"
    /\ room' = DevCap /\ oBlock' = FALSE
    /\ oPc' = IF oSentExecute THEN "poll" ELSE IF oSentCommand THEN "args" ELSE "cmd"
    /\ UNCHANGED <<oSentCommand, oArgsLeft, oSentExecute, oDone, oSig, oGot, oExit>>

OSendCommand(q) ==       \* "active" and "command"; the args are marshalled
    /\ oPc = "cmd"
    /\ q' = Send(Send(q, Msg("active", 1, 0)), Msg("command", IF sc.name = "empty" THEN 0 ELSE 1, 0))
    /\ oSentCommand' = TRUE /\ oArgsLeft' = sc.args
    /\ oPc' = "args"
    /\ UNCHANGED <<room, oBlock, oSentExecute, oDone, oSig, oGot, oExit>>

OSendArgs(q) ==          \* as much of the args as fits; the flags follow only if there is room left
    /\ oPc = "args"
    /\ LET n == Min(room, oArgsLeft) IN
       /\ q' = IF n > 0 THEN Send(q, Msg("args", n, 0)) ELSE q
       /\ oArgsLeft' = oArgsLeft - n
       /\ room' = room - n
       /\ IF room - n = 0 THEN oPc' = "ret" /\ oBlock' = TRUE          \* moreInfo: the device is blocked, next 69
          ELSE oPc' = "mayfail" /\ oBlock' = FALSE
    /\ UNCHANGED <<oSentCommand, oSentExecute, oDone, oSig, oGot, oExit>>

OSendFlag(q, pc, next, msg, set) ==
    /\ oPc = pc
    /\ q' = IF set THEN Send(q, Msg(msg, 1, 0)) ELSE q
    /\ oPc' = next
    /\ UNCHANGED <<room, oBlock, oSentCommand, oArgsLeft, oSentExecute, oDone, oSig, oGot, oExit>>

OSendMayFail(q) == OSendFlag(q, "mayfail", "retout", "may_fail", sc.mayFail)
OSendRetOut(q)  == OSendFlag(q, "retout", "reterr", "return_stdout", sc.wantOut)
OSendRetErr(q)  == OSendFlag(q, "reterr", "exec", "return_stderr", sc.wantErr)

OSendExecute(q) ==
    /\ oPc = "exec"
    /\ q' = Send(q, Msg("execute", 0, 0))
    /\ oSentExecute' = TRUE
    /\ oPc' = "ret"
    /\ UNCHANGED <<room, oBlock, oSentCommand, oArgsLeft, oDone, oSig, oGot, oExit>>

OSendSig(q) ==           \* after execute: a queued signal, if any
    /\ oPc = "poll"
    /\ q' = IF oSig = "queued" THEN Send(q, Msg("sig", 15, 0)) ELSE q
    /\ oSig' = IF oSig = "queued" THEN "sent" ELSE oSig
    /\ oPc' = "ret"
    /\ UNCHANGED <<room, oBlock, oSentCommand, oArgsLeft, oSentExecute, oDone, oGot, oExit>>

(* ProduceInfo returns (blockPeer = oBlock, moduleDone = oDone) *)
OReturn ==
    /\ oPc = "ret"
    /\ oPc' = "idle"
    /\ UNCHANGED <<room, oBlock, oSentCommand, oArgsLeft, oSentExecute, oDone, oSig, oGot, oExit>>

(* HandleInfo *)
OHandleActive(m) ==      \* active = false is an error
    /\ m.m = "active"
    /\ UNCHANGED ovars

StreamWanted(fd) == IF fd = 1 THEN sc.wantOut ELSE sc.wantErr
OHandleStream(m) ==      \* a chunk is written to the writer of the stream
    /\ m.m \in {"stdout", "stderr"}
    /\ LET fd == IF m.m = "stdout" THEN 1 ELSE 2 IN
       /\ StreamWanted(fd)
       /\ oGot' = [oGot EXCEPT ![fd] = [n |-> @.n + m.b, taint |-> @.taint \/ m.a # @.n]]
    /\ UNCHANGED <<oPc, room, oBlock, oSentCommand, oArgsLeft, oSentExecute, oDone, oSig, oExit>>
OStreamRefused(m) ==     \* "stdout received but not requested"
    /\ m.m \in {"stdout", "stderr"}
    /\ ~StreamWanted(IF m.m = "stdout" THEN 1 ELSE 2)

OHandleExit(m) ==        \* the code goes to ExitChan, the module is done
    /\ m.m = "exitcode"
    /\ oExit' = m.a /\ oDone' = TRUE
    /\ UNCHANGED <<oPc, room, oBlock, oSentCommand, oArgsLeft, oSentExecute, oSig, oGot>>

(* the application: a signal for the command, once it waits for one (D6) *)
OAppSignal ==
    /\ oSig = "no" /\ oSentExecute /\ ~oDone
    /\ oSig' = "queued"
    /\ UNCHANGED <<oPc, room, oBlock, oSentCommand, oArgsLeft, oSentExecute, oDone, oGot, oExit>>

(* ======================= device module: fsim.Command ======================= *)
DeviceInit ==
    /\ dActive = FALSE
    /\ dArg0 = "unset" /\ dArgs = 0 /\ dMayFail = FALSE /\ dWantOut = FALSE /\ dWantErr = FALSE
    /\ dCmd = "none" /\ dSent = Zero2 /\ dExecs = 0

(* reset(): kills what runs, forgets everything but Timeout and Transform *)
DReset ==
    /\ dArg0' = "unset" /\ dArgs' = 0 /\ dCmd' = "none" /\ dSent' = Zero2
    /\ IF ResetBetween THEN dMayFail' = FALSE /\ dWantOut' = FALSE /\ dWantErr' = FALSE
       ELSE UNCHANGED <<dMayFail, dWantOut, dWantErr>>
KillIfRunning ==      \* reset() kills a running process
    IF dCmd = "started" /\ pState \in {"running", "waiting"}
    THEN /\ pState' = "exited" /\ pExit' = Sig /\ UNCHANGED <<pPc, written, tailOpen, pSignalled, pWrapped>>
    ELSE UNCHANGED pvars

DRecvCommand(m) ==       \* "command": reset, then the name
    /\ m.m = "command"
    /\ KillIfRunning
    /\ dArg0' = IF m.a = 1 THEN "given" ELSE "empty"
    /\ dArgs' = 0 /\ dCmd' = "none" /\ dSent' = Zero2
    /\ IF ResetBetween THEN dMayFail' = FALSE /\ dWantOut' = FALSE /\ dWantErr' = FALSE
       ELSE UNCHANGED <<dMayFail, dWantOut, dWantErr>>
    /\ UNCHANGED <<dActive, dExecs>>

DRecvArgs(m) ==          \* the chunks of one "args" arrive concatenated (IsMoreServiceInfo)
    /\ m.m = "args"
    /\ dArgs' = dArgs + m.a
    /\ UNCHANGED <<dActive, dArg0, dMayFail, dWantOut, dWantErr, dCmd, dSent, dExecs>>

DRecvMayFail(m) == m.m = "may_fail"      /\ dMayFail' = (m.a = 1) /\ UNCHANGED <<dActive, dArg0, dArgs, dWantOut, dWantErr, dCmd, dSent, dExecs>>
DRecvRetOut(m)  == m.m = "return_stdout" /\ dWantOut' = (m.a = 1) /\ UNCHANGED <<dActive, dArg0, dArgs, dMayFail, dWantErr, dCmd, dSent, dExecs>>
DRecvRetErr(m)  == m.m = "return_stderr" /\ dWantErr' = (m.a = 1) /\ UNCHANGED <<dActive, dArg0, dArgs, dMayFail, dWantOut, dCmd, dSent, dExecs>>

CanStart == dArg0 = "given" /\ dCmd = "none" /\ sc.name = "sh" /\ policy # "refuse" /\ dArgs = sc.args

(* "active" is handled by TO2 itself: Transition(true) when the module becomes active, answered with active = true *)
DRecvActive(m, q) ==
    /\ m.m = "active"
    /\ dActive' = TRUE
    /\ q' = IF dActive THEN q ELSE Send(q, Msg("active", 1, 0))
    /\ UNCHANGED <<dArg0, dArgs, dMayFail, dWantOut, dWantErr, dCmd, dSent, dExecs>>

(* "execute": the process is started with the name and args received, through Transform if set *)
DRecvExecuteOK(m) ==
    /\ m.m = "execute" /\ CanStart
    /\ dCmd' = "started" /\ dExecs' = dExecs + 1
    /\ pState' = "running" /\ pPc' = 1 /\ written' = Zero2 /\ tailOpen' = [fd \in {1, 2} |-> FALSE]
    /\ pExit' = NoExit /\ pSignalled' = FALSE /\ pWrapped' = (policy = "wrap")
    /\ UNCHANGED <<dActive, dArg0, dArgs, dMayFail, dWantOut, dWantErr, dSent>>
(* no command given / execute twice / the program cannot be started: an error of Receive, which resets *)
DRecvExecuteErr(m) ==
    /\ m.m = "execute" /\ ~CanStart
    /\ KillIfRunning /\ DReset /\ UNCHANGED <<dActive, dExecs>>

DRecvSigOK(m) ==         \* the signal is delivered to the process
    /\ m.m = "sig" /\ dCmd = "started"
    /\ pSignalled' = (pState \in {"running", "waiting"})
    /\ UNCHANGED <<dvars, pState, pPc, written, tailOpen, pExit, pWrapped>>
DRecvSigErr(m) ==        \* "received a signal before execute"
    /\ m.m = "sig" /\ dCmd # "started"
    /\ DReset /\ UNCHANGED <<dActive, dExecs, pvars>>

(* Yield.  Returns the chunks to send and what becomes of the module. *)
Exited == pState = "exited"
Avail(fd) ==             \* units that may be handed on now: complete lines while it runs, everything once it has exited
    (IF Exited THEN written[fd] ELSE written[fd] - (IF tailOpen[fd] THEN 1 ELSE 0)) - dSent[fd]
RECURSIVE Chunks(_, _, _)
Chunks(name, off, k) ==  \* k units from offset off, at most OwnCap per message
    IF k <= 0 THEN <<>> ELSE <<Msg(name, off, Min(k, OwnCap))>> \o Chunks(name, off + Min(k, OwnCap), k - Min(k, OwnCap))
YieldStreams ==
    (IF dWantOut THEN Chunks("stdout", dSent[1], Avail(1)) ELSE <<>>) \o
    (IF dWantErr THEN Chunks("stderr", dSent[2], Avail(2)) ELSE <<>>)
YieldFails == Exited /\ pExit # 0 /\ ~dMayFail

DYieldIdle ==            \* no command: nothing to do
    /\ dCmd = "none"
    /\ UNCHANGED <<dvars, pvars>>
DYieldRunning(q) ==      \* the lines so far
    /\ dCmd = "started" /\ ~Exited
    /\ q' = q \o YieldStreams
    /\ dSent' = [fd \in {1, 2} |-> IF (fd = 1 /\ dWantOut) \/ (fd = 2 /\ dWantErr) THEN dSent[fd] + Avail(fd) ELSE dSent[fd]]
    /\ UNCHANGED <<dActive, dArg0, dArgs, dMayFail, dWantOut, dWantErr, dCmd, dExecs, pvars>>
DYieldExited(q) ==       \* the rest of the output, the exit code; the module is idle again
    /\ dCmd = "started" /\ Exited /\ ~YieldFails
    /\ q' = (q \o YieldStreams) \o <<Msg("exitcode", pExit, 0)>>
    /\ DReset /\ UNCHANGED <<dActive, dExecs, pvars>>
DYieldError ==           \* non-zero exit without may_fail: the error ends TO2 (D4)
    /\ dCmd = "started" /\ YieldFails
    /\ DReset /\ UNCHANGED <<dActive, dExecs, pvars>>

(* ======================= the process ======================= *)
ProcInit ==
    /\ pState = "none" /\ pPc = 0 /\ written = Zero2 /\ tailOpen = [fd \in {1, 2} |-> FALSE]
    /\ pExit = NoExit /\ pSignalled = FALSE /\ pWrapped = FALSE

PWrite ==                \* the next write of the program
    /\ pState = "running" /\ pPc <= Len(Prog(sc.prog))
    /\ LET w == Prog(sc.prog)[pPc] IN
       /\ written' = [written EXCEPT ![w.fd] = @ + w.n]
       /\ tailOpen' = [tailOpen EXCEPT ![w.fd] = w.tail]
    /\ pPc' = pPc + 1
    /\ UNCHANGED <<pState, pExit, pSignalled, pWrapped>>
PEnd ==                  \* the program is through: exit, kill itself, or wait for a signal
    /\ pState = "running" /\ pPc > Len(Prog(sc.prog)) /\ ~pSignalled
    /\ IF sc.end \in {"exit0", "exitN", "selfkill"}
       THEN pState' = "exited" /\ pExit' = Status(sc)
       ELSE pState' = "waiting" /\ pExit' = pExit
    /\ UNCHANGED <<pPc, written, tailOpen, pSignalled, pWrapped>>
PReact ==                \* a signal arrived: the handler writes a line and exits 0, or the process dies
    /\ pState \in {"running", "waiting"} /\ pSignalled
    /\ IF sc.end = "sigtrap" /\ pState = "waiting"
       THEN written' = [written EXCEPT ![1] = @ + 1] /\ tailOpen' = [tailOpen EXCEPT ![1] = FALSE] /\ pExit' = 0
       ELSE UNCHANGED <<written, tailOpen>> /\ pExit' = Sig
    /\ pState' = "exited"
    /\ UNCHANGED <<pPc, pSignalled, pWrapped>>
PTimeout ==              \* Command.Timeout: the context kills the process
    /\ pState = "waiting" /\ sc.end = "timeout"
    /\ pState' = "exited" /\ pExit' = Sig
    /\ UNCHANGED <<pPc, written, tailOpen, pSignalled, pWrapped>>

(* ======================= TO2: the 68/69 loop and the session ======================= *)
Init ==
    /\ policy \in Policies /\ ncmds \in 1..MaxCmds
    /\ xi = 1 /\ sstage = "run" /\ cstage = "run" /\ res = "none"
    /\ sc \in {s \in Scenarios : Canonical(s) /\ Compatible(policy, s)}
    /\ turn = "owner" /\ o2d = <<>> /\ d2o = <<>>
    /\ OwnerInit /\ oArgsLeft = 0
    /\ DeviceInit /\ ProcInit

Running == sstage = "run" /\ cstage = "run"

Fail ==                  \* a module returned an error: message 255, TO2 is over
    /\ sstage' = "failed" /\ cstage' = "end" /\ res' = "fail"
    /\ UNCHANGED <<policy, ncmds, xi, sc>>

OwnerProduces ==         \* the steps of one ProduceInfo call
    /\ Running /\ turn = "owner" /\ d2o = <<>>
    /\ \/ OCall /\ UNCHANGED o2d
       \/ OSendCommand(o2d) \/ OSendArgs(o2d) \/ OSendMayFail(o2d) \/ OSendRetOut(o2d) \/ OSendRetErr(o2d)
       \/ OSendExecute(o2d) \/ OSendSig(o2d)
    /\ UNCHANGED <<sessvars, turn, d2o, dvars, pvars>>

OwnerReturns ==          \* blockPeer: another 69 follows; moduleDone: the command is over; else the device's turn
    /\ Running /\ turn = "owner" /\ OReturn
    /\ IF oDone
       THEN /\ cstage' = "end" /\ res' = "done" /\ UNCHANGED <<policy, ncmds, xi, sstage, sc, turn>>
       ELSE /\ turn' = (IF oBlock THEN "owner" ELSE "device")
            /\ UNCHANGED sessvars
    /\ UNCHANGED <<o2d, d2o, dvars, pvars>>

DeviceReceives ==        \* the owner has stopped blocking: the device module is handed every message of the 69(s), in order
    /\ Running /\ turn = "device" /\ o2d # <<>>
    /\ LET m == Head(o2d) IN
       \/ /\ DRecvActive(m, d2o) /\ UNCHANGED <<pvars, sessvars>>
       \/ /\ DRecvCommand(m) /\ UNCHANGED <<d2o, sessvars>>
       \/ /\ \/ DRecvArgs(m) \/ DRecvMayFail(m) \/ DRecvRetOut(m) \/ DRecvRetErr(m)
          /\ UNCHANGED <<d2o, pvars, sessvars>>
       \/ /\ DRecvExecuteOK(m) /\ UNCHANGED <<d2o, sessvars>>
       \/ /\ DRecvExecuteErr(m) /\ Fail /\ UNCHANGED d2o
       \/ /\ DRecvSigOK(m) /\ UNCHANGED <<d2o, sessvars>>
       \/ /\ DRecvSigErr(m) /\ Fail /\ UNCHANGED d2o
    /\ o2d' = Tail(o2d)
    /\ UNCHANGED <<turn, ovars>>

DeviceYields ==          \* all of the owner's messages are handled: Yield, then the 68(s)
    /\ Running /\ turn = "device" /\ o2d = <<>>
    /\ \/ DYieldIdle /\ UNCHANGED <<d2o, sessvars>>
       \/ DYieldRunning(d2o) /\ UNCHANGED sessvars
       \/ DYieldExited(d2o) /\ UNCHANGED sessvars
       \/ DYieldError /\ Fail /\ UNCHANGED d2o
    /\ turn' = "owner"
    /\ UNCHANGED <<o2d, ovars>>

OwnerHandles ==          \* HandleInfo for every message of the 68(s)
    /\ Running /\ turn = "owner" /\ d2o # <<>> /\ oPc = "idle"
    /\ LET m == Head(d2o) IN
       \/ OHandleActive(m) /\ UNCHANGED sessvars
       \/ OHandleStream(m) /\ UNCHANGED sessvars
       \/ OStreamRefused(m) /\ Fail /\ UNCHANGED ovars
       \/ OHandleExit(m) /\ UNCHANGED sessvars
    /\ d2o' = Tail(d2o)
    /\ UNCHANGED <<turn, o2d, dvars, pvars>>

Process ==
    /\ Running /\ (PWrite \/ PEnd \/ PReact \/ PTimeout)
    /\ UNCHANGED <<sessvars, loopvars, ovars, dvars>>

Application ==           \* the owner application signals a command that waits for its signal
    /\ Running /\ sc.end \in {"sigtrap", "sigkill"} /\ pState = "waiting" /\ OAppSignal
    /\ UNCHANGED <<sessvars, loopvars, dvars, pvars>>

(* the next command of the session: a new RunCommand, the same fsim.Command as the last one left it *)
NextCmd ==
    /\ sstage = "run" /\ cstage = "end" /\ res = "done" /\ xi < ncmds
    /\ xi' = xi + 1 /\ cstage' = "run" /\ res' = "none"
    /\ sc' \in {s \in Scenarios : Canonical(s) /\ Compatible(policy, s)}
    /\ oPc' = "idle" /\ room' = 0 /\ oBlock' = FALSE /\ oSentCommand' = FALSE /\ oArgsLeft' = 0 /\ oSentExecute' = FALSE
    /\ oDone' = FALSE /\ oSig' = "no" /\ oGot' = Clean /\ oExit' = NoExit
    /\ pState' = "none" /\ pPc' = 0 /\ written' = Zero2 /\ tailOpen' = [fd \in {1, 2} |-> FALSE]
    /\ pExit' = NoExit /\ pSignalled' = FALSE /\ pWrapped' = FALSE
    /\ UNCHANGED <<policy, ncmds, sstage, loopvars, dvars>>

EndSession ==            \* the last owner module is done: IsDone, 70/71
    /\ sstage = "run" /\ cstage = "end" /\ res = "done" /\ xi = ncmds
    /\ sstage' = "done"
    /\ UNCHANGED <<policy, ncmds, xi, sc, cstage, res, loopvars, ovars, dvars, pvars>>

Next == OwnerProduces \/ OwnerReturns \/ DeviceReceives \/ DeviceYields \/ OwnerHandles \/ Process \/ Application
        \/ NextCmd \/ EndSession

Spec == Init /\ [][Next]_vars

-----------------------------------------------------------------------------
(* X02: the behavioural properties, for every command of a session *)
Ended == cstage = "end"
Ran   == pState # "none"

(* nothing runs before execute; what runs was started by exactly one execute of this command *)
NothingBeforeExecute == Ran => (dExecs = xi /\ oSentExecute)
OneExecutePerCommand == dExecs <= xi
(* the writers receive only what was requested ... *)
OnlyIfRequested == (~sc.wantOut => oGot[1].n = 0) /\ (~sc.wantErr => oGot[2].n = 0)
(* ... never anything but a prefix of what the command wrote, in order, each unit once ... *)
StreamsArePrefixes == \A fd \in {1, 2} : ~oGot[fd].taint /\ oGot[fd].n <= written[fd]
(* ... and all of it when the owner module completes *)
CompleteWhenDone == oDone => \A fd \in {1, 2} : StreamWanted(fd) => (oGot[fd].n = written[fd] /\ oGot[fd].n = WritesOf(sc, fd))
(* the exit code reported is the command's, and it is the last thing: the owner module completes exactly after it *)
ExitCodeIsTheCommands == oDone => (Exited /\ oExit = pExit /\ oExit = Status(sc))
DoneOnlyAfterExitCode == (oDone <=> oExit # NoExit) /\ (res = "done" => oDone)
(* MayFail: a non-zero exit ends TO2 unless MayFail; with MayFail TO2 goes on *)
OutcomeAsDocumented   == Ended => res = Expected(policy, sc)
NonZeroWithoutMayFailEndsTO2 == (Ended /\ Ran /\ Exited /\ pExit # 0 /\ ~sc.mayFail) => (sstage = "failed" /\ ~oDone)
NonZeroWithMayFailContinues  == (Ended /\ Ran /\ sc.mayFail /\ Startable(policy, sc)) => (res = "done" /\ sstage # "failed")
(* a command the device refuses or cannot start: an error, nothing ran (D1) *)
RefusedFailsNothingRan == (Ended /\ ~Startable(policy, sc)) => (res = "fail" /\ ~Ran /\ sstage = "failed")
(* the device's wrapper is what runs the command when the policy says so *)
PolicyApplied == Ran => (pWrapped <=> policy = "wrap")
(* the device runs the command with the args the owner gave, all of them *)
ArgsComplete == Ran => dExecs = xi
(* the device module is idle when a command is over and the session goes on: the next one is judged on its own *)
DeviceIdleBetween == (Ended /\ res = "done") =>
    (dCmd = "none" /\ dArg0 = "unset" /\ ~dMayFail /\ ~dWantOut /\ ~dWantErr /\ dSent = Zero2)
SessionEndsAsPlanned == sstage = "done" => (xi = ncmds /\ res = "done")

TypeOK ==
    /\ policy \in Policies /\ ncmds \in 1..MaxCmds /\ xi \in 1..ncmds
    /\ sstage \in {"run", "done", "failed"} /\ cstage \in {"run", "end"} /\ res \in {"none", "done", "fail"}
    /\ turn \in {"owner", "device"}
    /\ oPc \in {"idle", "cmd", "args", "mayfail", "retout", "reterr", "exec", "poll", "ret"}
    /\ oSig \in {"no", "queued", "sent"} /\ oExit \in {NoExit, 0, N, Sig}
    /\ dArg0 \in {"unset", "given", "empty"} /\ dCmd \in {"none", "started"}
    /\ pState \in {"none", "running", "waiting", "exited"} /\ pExit \in {NoExit, 0, N, Sig}
    /\ Len(o2d) <= 12 /\ Len(d2o) <= 12

(* vacuity probes (must be violated) *)
NeverDone          == ~(Ended /\ res = "done")
NeverSecond        == ~(xi > 1 /\ Ended /\ res = "done")
NeverMayFailNonZero == ~(Ended /\ res = "done" /\ oExit # 0)
NeverBlocked       == ~oBlock
NeverTwoChunks     == \A fd \in {1, 2} : ~(oGot[fd].n > OwnCap)
=============================================================================
