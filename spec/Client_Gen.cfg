SPECIFICATION GSpec
VIEW GView
INVARIANTS Emit
CHECK_DEADLOCK FALSE
