\* thorough generation: every list of length <= 3 over 16 variables x {valid, malformed}, both roles
SPECIFICATION Spec
CONSTANTS
  MaxLen = 3
  Classes = {"valid", "malformed"}
  Full = FALSE
INVARIANTS TypeOK OrderIndependent Commutes RoleFilter OwnRoleNeutral Defaults MalformedIgnored PortFromTables GenEmit
