SPECIFICATION Spec
CONSTANTS
  Devs = {"d1", "d2", "d3"}
  Kinds = {"P256"}
  Encs = {"X509", "X5CHAIN", "COSE"}
  Rvs = {1, 2}
  Mtus = {"small"}
  ModCounts = {1}
  Vols = {1}
  OwnerChain = TRUE
  Memo = FALSE
INVARIANTS TypeOK NonInterference
PROPERTIES OwnRowOnly
