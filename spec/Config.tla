------------------------------- MODULE Config -------------------------------
(***************************************************************************)
(* The crypto configuration space of FDO 1.1 as go-fdo implements it, and  *)
(* the onboarding chain run under one configuration.  The validity table   *)
(* is transcribed from FDO 1.1 section 3.6.5 (key exchange vs. attestation *)
(* key types) and from what the library documents (kex.Suite.Valid: a      *)
(* device with an RSA attestation key may use any suite).  It is written   *)
(* independently of kex/suite.go; the conformance run compares the two.    *)
(*                                                                         *)
(* C09: Valid(c) => the chain DI, extend, TO0, TO1, TO2, resale, TO2       *)
(* completes with an encrypted tunnel; ~Valid(c) => TO2 fails on both      *)
(* sides at HelloDevice/ProveOVHdr and nothing is negotiated instead.      *)
(***************************************************************************)
EXTENDS Naturals, Sequences, FiniteSets, TLC

KeyKinds == {"P256", "P384", "RSA2048RESTR", "RSAPKCS3072", "RSAPSS2048", "RSAPSS3072"}
Encodings == {"X509", "X5CHAIN", "COSE"}
KexSuites == {"ECDH256", "ECDH384", "DHKEXid14", "DHKEXid15", "ASYMKEX2048", "ASYMKEX3072"}
Ciphers == {"A128GCM", "A192GCM", "A256GCM", "AES128CBC", "AES128CTR", "AES256CBC", "AES256CTR"}

IsRSA(k) == k \in {"RSA2048RESTR", "RSAPKCS3072", "RSAPSS2048", "RSAPSS3072"}
Bits(k) == IF k \in {"RSA2048RESTR", "RSAPSS2048"} THEN 2048 ELSE IF k \in {"RSAPKCS3072", "RSAPSS3072"} THEN 3072 ELSE 0

(* FDO 1.1, 3.6.5: the key exchange must match the owner attestation key. *)
KexForOwner(owner) ==
    CASE owner = "P256" -> {"ECDH256"}
      [] owner = "P384" -> {"ECDH384"}
      [] Bits(owner) = 2048 -> {"DHKEXid14", "ASYMKEX2048"}
      [] Bits(owner) = 3072 -> {"DHKEXid15", "ASYMKEX3072"}

(* go-fdo: a device attesting with RSA accepts every suite (named deviation RSADeviceAnySuite); *)
(* ASYMKEX needs an RSA owner key to encrypt to.                                                *)
KexValid(dev, owner, kex) ==
    IF IsRSA(dev) THEN (kex \in {"ASYMKEX2048", "ASYMKEX3072"} => IsRSA(owner))
    ELSE kex \in KexForOwner(owner)

EncodingValid(owner, enc) == enc = "COSE" => ~IsRSA(owner)      \* COSE key encoding is used for EC keys only

(* hash / HMAC strength chosen for vouchers and credentials: the weaker of device and owner key *)
Strength(k) == IF k = "P256" \/ Bits(k) = 2048 THEN 256 ELSE 384
HashFor(dev, owner) == IF Strength(dev) < Strength(owner) THEN Strength(dev) ELSE Strength(owner)

Tuples == [dev : KeyKinds, owner : KeyKinds, enc : Encodings, kex : KexSuites, cipher : Ciphers, reuse : BOOLEAN, to1 : BOOLEAN]
InScope(c) == EncodingValid(c.owner, c.enc)
Valid(c) == KexValid(c.dev, c.owner, c.kex)

(* the onboarding chain under one configuration *)
Stages == <<"di", "extend", "to0", "to1", "to2", "resell", "to2b", "done">>
VARIABLES cfg, stage, failed
vars == <<cfg, stage, failed>>

CONSTANT SameKind      \* TRUE: only configurations whose device key has the type of the manufacturer/owner keys
Init == cfg \in {c \in Tuples : InScope(c) /\ (SameKind => c.dev = c.owner)} /\ stage = 1 /\ failed = "none"

Advance ==
    /\ failed = "none" /\ stage < Len(Stages)
    /\ LET s == Stages[stage] IN
       IF s \in {"to2", "to2b"} /\ ~Valid(cfg)
       THEN failed' = s /\ UNCHANGED <<cfg, stage>>        \* refused by both sides at 60/61
       ELSE IF s = "to1" /\ ~cfg.to1
            THEN stage' = stage + 1 /\ UNCHANGED <<cfg, failed>>   \* rendezvous bypass
            ELSE stage' = stage + 1 /\ UNCHANGED <<cfg, failed>>
Next == Advance
Spec == Init /\ [][Next]_vars /\ WF_vars(Next)

Completed == Stages[stage] = "done"
Terminal == Completed \/ failed # "none"
ValidCompletes == Terminal => (Valid(cfg) <=> Completed)
InvalidFailsAtTO2 == failed # "none" => failed = "to2"
Terminates == <>Terminal
=============================================================================
