\* thorough: every list up to length 4 (every order and multiplicity) over the 16 variables with valid
\* values (reduced table values). Order independence in its step form (Commutes in every state = every
\* adjacent transposition of every list), which implies the permutation form.
SPECIFICATION Spec
CONSTANTS
  MaxLen = 4
  Classes = {"valid"}
  Full = FALSE
INVARIANTS TypeOK Commutes RoleFilter Defaults PortFromTables
