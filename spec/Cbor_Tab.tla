------------------------------ MODULE Cbor_Tab ------------------------------
(* Verdict table for C12.  For byte strings over class representatives      *)
(* (every major type x the additional-information classes) of length <= 3    *)
(* and for the adversarial shape families, print the verdict of Cbor.tla:    *)
(*   code = 100000 * class + n   class 0 bad (every target must refuse),     *)
(*                               1 def, 2 indef, 3 len (Ok must consume n)   *)
(*   w    = 1 iff WrappedExact (bstr .cbor targets may accept)               *)
(* One line per prefix p of length <= 2:                                     *)
(*   BEHAVIOUR {"p": [..], "reps": [..], "code": [..], "w": [..]}            *)
(* where entry i is the verdict for p \o <<reps[i]>>; plus a line for p      *)
(* itself ("self").  One line per shape: {"shape": name, "bytes", "code",    *)
(* "w"}.  The same inputs are given to the Go reference decoder (harness/cb  *)
(* and cborx.Verdict), which must agree, and to the library.                 *)
(* The module also checks, on these arbitrary byte strings, the theorems of  *)
(* C11 that are stated on bytes: Enc(Dec(b)) = b iff b is canonical, and     *)
(* Dec is defined exactly on definite well-formed items of the data model.   *)
EXTENDS Cbor_MC, Json

CONSTANTS AIs        \* additional-information representatives used for every byte

VARIABLE p           \* [kind |-> "prefix", s |-> bytes] or [kind |-> "shape", i |-> index]

Reps == {32 * m + a : m \in 0..7, a \in AIs}
InReps(x) == (x % 32) \in AIs
RepSeq == SelectSeq([i \in 1..256 |-> i - 1], InReps)

Code(b) ==
    LET c == Class(b) IN
    IF c = "bad" THEN 0
    ELSE (CASE c = "def" -> 100000 [] c = "indef" -> 200000 [] c = "len" -> 300000) + ItemLen(b)
W(b) == IF WrappedExact(b) THEN 1 ELSE 0

\* ---- adversarial shapes -------------------------------------------------
Claim99999(major) == <<32 * major + 26, 0, 1, 134, 159>>           \* head claiming 99 999
Max8(major) == <<32 * major + 27>> \o FF(8)                          \* head claiming 2^64-1
Shapes == <<
    [name |-> "nest-arr-99999-d4-trunc", b |-> Rep(Claim99999(4), 4)],
    [name |-> "nest-arr-99999-d40-trunc", b |-> Rep(Claim99999(4), 40)],
    [name |-> "nest-map-49999-d8-trunc", b |-> Rep(<<186, 0, 0, 195, 79, 0>>, 8)],
    [name |-> "nest-arr1-d8", b |-> Rep(<<129>>, 8) \o <<128>>],
    [name |-> "nest-arr1-d100", b |-> Rep(<<129>>, 100) \o <<0>>],
    [name |-> "nest-arr1-d100-trunc", b |-> Rep(<<129>>, 100)],
    [name |-> "nest-map1-d50", b |-> Rep(<<161, 0>>, 50) \o <<160>>],
    [name |-> "nest-tag-d100", b |-> Rep(<<193>>, 100) \o <<0>>],
    [name |-> "nest-tag-d100-trunc", b |-> Rep(<<193>>, 100)],
    [name |-> "nest-indef-arr-d50", b |-> Rep(<<159>>, 50) \o Rep(<<255>>, 50)],
    [name |-> "max-uint", b |-> Max8(0)],
    [name |-> "max-nint", b |-> Max8(1)],
    [name |-> "max-bstr", b |-> Max8(2)],
    [name |-> "max-tstr", b |-> Max8(3) \o <<97>>],
    [name |-> "max-arr", b |-> Max8(4) \o <<0, 0>>],
    [name |-> "max-map", b |-> Max8(5) \o <<0, 0>>],
    [name |-> "max-tag", b |-> Max8(6) \o <<0>>],
    [name |-> "float64", b |-> <<251>> \o FF(8)],
    [name |-> "float16", b |-> <<249, 60, 0>>],
    [name |-> "bstr-2^63", b |-> <<91, 128, 0, 0, 0, 0, 0, 0, 0>> \o <<1, 2, 3>>],
    [name |-> "bstr-2^63-1", b |-> <<91, 127>> \o FF(7) \o <<1, 2, 3>>],
    [name |-> "bstr-2^31", b |-> <<90, 128, 0, 0, 0>> \o <<1, 2, 3>>],
    [name |-> "bstr-100000", b |-> <<90, 0, 1, 134, 160>> \o <<1, 2, 3>>],
    [name |-> "bstr-claims-32-has-10", b |-> <<88, 32>> \o Txt(10, 0)],
    [name |-> "tstr-claims-32-has-10", b |-> <<120, 32>> \o Txt(10, 0)],
    [name |-> "arr-claims-5-has-3", b |-> <<133, 1, 2, 3>>],
    [name |-> "map-claims-2-has-3-items", b |-> <<162, 1, 2, 3>>],
    [name |-> "indef-arr", b |-> <<159, 1, 255>>],
    [name |-> "indef-arr-empty", b |-> <<159, 255>>],
    [name |-> "indef-arr-nobreak", b |-> <<159, 1, 2>>],
    [name |-> "indef-map", b |-> <<191, 1, 2, 255>>],
    [name |-> "indef-map-odd", b |-> <<191, 1, 255>>],
    [name |-> "indef-bstr", b |-> <<95, 65, 0, 65, 1, 255>>],
    [name |-> "indef-bstr-badchunk", b |-> <<95, 97, 0, 255>>],
    [name |-> "indef-bstr-nested", b |-> <<95, 95, 255, 255>>],
    [name |-> "indef-tstr", b |-> <<127, 97, 97, 255>>],
    [name |-> "indef-in-def", b |-> <<130, 159, 255, 0>>],
    [name |-> "def-in-indef", b |-> <<159, 130, 0, 0, 255>>],
    [name |-> "reserved-28", b |-> <<28>>],
    [name |-> "reserved-29-arr", b |-> <<157, 0>>],
    [name |-> "reserved-30-bstr", b |-> <<94, 0>>],
    [name |-> "reserved-31-uint", b |-> <<31>>],
    [name |-> "reserved-31-nint", b |-> <<63, 0>>],
    [name |-> "reserved-31-tag", b |-> <<223, 0>>],
    [name |-> "reserved-in-arr", b |-> <<129, 28>>],
    [name |-> "break-alone", b |-> <<255>>],
    [name |-> "break-in-def-arr", b |-> <<129, 255>>],
    [name |-> "simple-f8-low", b |-> <<248, 5>>],
    [name |-> "simple-f8-high", b |-> <<248, 32>>],
    [name |-> "simple-in-arr-low", b |-> <<129, 248, 0>>],
    [name |-> "undefined", b |-> <<247>>],
    [name |-> "wrap-exact", b |-> <<65, 1>>],
    [name |-> "wrap-exact-arr", b |-> <<67, 130, 1, 2>>],
    [name |-> "wrap-inner-trailing", b |-> <<68, 1, 2, 3, 4>>],
    [name |-> "wrap-inner-truncated", b |-> <<66, 130, 1>>],
    [name |-> "wrap-inner-indef", b |-> <<67, 159, 1, 255>>],
    [name |-> "wrap-empty", b |-> <<64>>],
    [name |-> "wrap-in-arr-trailing", b |-> <<130, 66, 0, 0>>],
    [name |-> "trailing-after-item", b |-> <<0, 0>>],
    [name |-> "empty", b |-> <<>>]
>>

TabInit == p = [kind |-> "prefix", s |-> <<>>, i |-> 0] /\ stack = <<>>    \* the builder is not used here

Extend == /\ p.kind = "prefix" /\ Len(p.s) < 2
          /\ \E r \in Reps : p' = [kind |-> "prefix", s |-> Append(p.s, r), i |-> 0]
PickShape == /\ p.kind = "prefix" /\ p.s = <<>>
             /\ \E i \in 1..Len(Shapes) : p' = [kind |-> "shape", s |-> <<>>, i |-> i]
TabNext == (Extend \/ PickShape) /\ UNCHANGED stack

TabSpec == TabInit /\ [][TabNext]_<<p, stack>>

Emit ==
    IF p.kind = "prefix"
    THEN PrintT("BEHAVIOUR " \o ToJson([p |-> p.s, self |-> Code(p.s), selfw |-> W(p.s), reps |-> RepSeq,
                                          code |-> [k \in 1..Len(RepSeq) |-> Code(Append(p.s, RepSeq[k]))],
                                          w |-> [k \in 1..Len(RepSeq) |-> W(Append(p.s, RepSeq[k]))]]))
    ELSE LET sh == Shapes[p.i] IN
         PrintT("BEHAVIOUR " \o ToJson([shape |-> sh.name, bytes |-> sh.b, code |-> Code(sh.b), w |-> W(sh.b)]))

\* ---- theorems on arbitrary bytes ------------------------------------------
Strings == IF p.kind = "shape" THEN {Shapes[p.i].b}
           ELSE {p.s} \cup {Append(p.s, r) : r \in Reps}

\* the decoder is defined on b (consuming all of it) only if b is a definite well-formed item
DecOnlyWellFormed ==
    \A b \in Strings : LET r == Dec(b) IN (r.ok /\ r.next = Len(b) + 1) => (Class(b) = "def" /\ ItemLen(b) = Len(b))

\* canonical bytes are fixed points of decode-then-encode, and nothing else is
ReEncodeIffCanonical ==
    \A b \in Strings : LET r == Dec(b) IN
        (r.ok /\ r.next = Len(b) + 1) => ((Enc(r.v) = b) <=> Canonical(b))

\* what is decoded re-encodes canonically and decodes to the same item
DecEncDec ==
    \A b \in Strings : LET r == Dec(b) IN
        r.ok => (Canonical(Enc(r.v)) /\ Dec(Enc(r.v)).v = r.v)

\* canonical implies definite, well formed, in the data model
CanonicalIsWellFormed ==
    \A b \in Strings : Canonical(b) => (Class(b) = "def" /\ ItemLen(b) = Len(b) /\ Dec(b).ok)

\* an item is never longer than the bytes, and a proper extension keeps the item length
ItemLenStable ==
    \A b \in Strings : (Class(b) # "bad") =>
        (ItemLen(b) <= Len(b) /\ ItemLen(b \o <<0>>) = ItemLen(b) /\ ItemLen(b \o <<255>>) = ItemLen(b))
=============================================================================
