-------------------------------- MODULE Kex --------------------------------
(***************************************************************************)
(* The key exchange sub-protocol of FDO TO2 as go-fdo implements it        *)
(* (kex/ecdh.go, kex/dh.go, kex/oaep.go, internal/nistkdf/kdf.go) between  *)
(* party A (owner, kex.Suite.New(nil, cipher)) and party B (device,        *)
(* kex.Suite.New(xA, cipher)).  Property C14.                              *)
(*                                                                         *)
(* Cryptography is symbolic: a private value is an atom, Pub(x) its public *)
(* value, DHz(a, Pub(b)) = DHz(b, Pub(a)) the Diffie-Hellman secret,       *)
(* KDF(prf, kin, ctx, L) the SP 800-108 counter-mode KDF with FDO's label  *)
(* and context prefix, Slice(k, from, n) n bytes of k from offset `from`.  *)
(* What the specification pins is WHICH arguments the derivation is        *)
(* applied to (FDO 1.1 section 3.6): ECDH kin = Z || randB || randA, empty *)
(* context; DH kin = Z (fixed length of p), empty context; ASYMKEX kin =   *)
(* device random, context = owner random.  The numeric equality of KDF     *)
(* with SP 800-108 is checked by the Go reference (DESIGN section 4).      *)
(*                                                                         *)
(* Session records mirror the Go structs (xA, xB, priv, SEK, SVK); `st` is *)
(* the control state the code keeps implicitly (priv # nil <=> "param").   *)
(* One action per API call: ParamA = A.Parameter, NewB = Suite.New(xA),    *)
(* ParamB = B.Parameter, SetParam = A.SetParameter, Persist/Restore =      *)
(* MarshalBinary / UnmarshalBinary of A's session (the owner does this on  *)
(* every message: sqlite SetXSession / XSession), DegenerateToA /          *)
(* DegenerateToB = a degenerate or out-of-range peer parameter,            *)
(* SecondSetParam = a replayed TO2.ProveDevice.                            *)
(***************************************************************************)
EXTENDS Naturals, Sequences, FiniteSets, TLC

CONSTANTS
    Suites,        \* subset of the six key exchange suites
    Ciphers,       \* subset of the seven cipher suites
    Rands,         \* randomness atoms each party draws from
    Slots,         \* independent sessions (pairs A/B)
    AdvSlots,      \* slots in which degenerate parameters / persistence are explored
    MaxRestores    \* bound on Restore actions per slot (model checking only)

VARIABLES
    suite, cipher, \* the configuration (chosen in Init)
    A, B,          \* [Slots -> session record]
    wireA, wireB,  \* the parameters as sent by the honest party (ghost)
    disk,          \* [Slots -> persisted copy of A or NoDisk]
    dirty,         \* [Slots -> BOOLEAN] A changed since the last Persist
    nrest,         \* [Slots -> Nat] restores so far
    inj,           \* [Slots -> record] which degenerate class was injected where (ghost)
    ra, rb,        \* [Slots -> Rands \cup {0}] randomness drawn (ghost)
    first,         \* [Slots -> keys A had when it first completed] (ghost)
    last           \* the last action with its result

vars == <<suite, cipher, A, B, wireA, wireB, disk, dirty, nrest, inj, ra, rb, first, last>>

AllSuites  == {"ECDH256", "ECDH384", "DHKEXid14", "DHKEXid15", "ASYMKEX2048", "ASYMKEX3072"}
AllCiphers == {"A128GCM", "A192GCM", "A256GCM", "COSEAES128CBC", "COSEAES128CTR", "COSEAES256CBC", "COSEAES256CTR"}

Family(s) == CASE s \in {"ECDH256", "ECDH384"}       -> "ecdh"
               [] s \in {"DHKEXid14", "DHKEXid15"}   -> "dh"
               [] OTHER                              -> "asym"

(* Cipher table (kex/cipher.go, cose/encrypt_alg.go, cose/mac_alg.go).  Lengths in bytes. *)
KeyLen(c) == CASE c \in {"A128GCM", "COSEAES128CBC", "COSEAES128CTR"} -> 16
               [] c = "A192GCM"                                       -> 24
               [] OTHER                                               -> 32
MacKeyLen(c) == CASE c \in {"COSEAES128CBC", "COSEAES128CTR"} -> 16     \* HMAC-SHA256 key as registered by the library
                  [] c \in {"COSEAES256CBC", "COSEAES256CTR"} -> 32     \* HMAC-SHA384 key as registered by the library
                  [] OTHER                                    -> 0      \* AEAD: no verification key
Prf(c) == IF c \in {"COSEAES256CBC", "COSEAES256CTR"} THEN "HMAC-SHA384" ELSE "HMAC-SHA256"
LBits(c) == (KeyLen(c) + MacKeyLen(c)) * 8

-----------------------------------------------------------------------------
(* Symbolic terms.  Every value is a record with a field t.                *)
None   == [t |-> "none"]
Zeroed == [t |-> "zero"]        \* the code clears xA/xB/priv once keys are derived
Empty  == [t |-> "empty"]
PrivA(r) == [t |-> "priv", who |-> "A", r |-> r]
PrivB(r) == [t |-> "priv", who |-> "B", r |-> r]
RndA(r)  == [t |-> "rnd", who |-> "A", r |-> r]
RndB(r)  == [t |-> "rnd", who |-> "B", r |-> r]
Pub(x)   == [t |-> "pub", x |-> x]
DHz(x, P) == [t |-> "z", xs |-> {x, P.x}]
EcParam(P, rnd) == [t |-> "ecparam", pub |-> P, rand |-> rnd]
Oaep(key, m)    == [t |-> "oaep", key |-> key, m |-> m]
Deg(cls)        == [t |-> "deg", class |-> cls]
KDF(prf, kin, ctx, l) ==
    [t |-> "kdf", prf |-> prf, kin |-> kin, label |-> "FIDO-KDF",
     ctx |-> <<"AutomaticOnboardTunnel", ctx>>, L |-> l]
Slice(k, from, n) == [t |-> "slice", of |-> k, from |-> from, n |-> n]

SEKof(k, c) == Slice(k, 0, KeyLen(c))
SVKof(k, c) == Slice(k, KeyLen(c), MacKeyLen(c))

Fail  == [ok |-> FALSE, k |-> None]
Ok(k) == [ok |-> TRUE, k |-> k]

(* kex/ecdh.go ecdhSymmetricKey + ecdhSharedSecret: the side holding p decides which parameter is *)
(* the peer's by comparing public values (xA first), then kin = Z || randB || randA.               *)
EcdhDerive(p, xA, xB, c) ==
    IF xA.t # "ecparam" \/ xB.t # "ecparam" THEN Fail
    ELSE LET other == IF xA.pub = Pub(p) THEN xB ELSE IF xB.pub = Pub(p) THEN xA ELSE None
         IN IF other.t # "ecparam" \/ other.pub.t # "pub" THEN Fail
            ELSE Ok(KDF(Prf(c), <<DHz(p, other.pub), xB.rand, xA.rand>>, Empty, LBits(c)))

(* kex/dh.go dhSymmetricKey: peer value must be in [2, p-2]; kin = Z. *)
DhDerive(p, other, c) ==
    IF other.t # "pub" THEN Fail
    ELSE Ok(KDF(Prf(c), <<DHz(p, other)>>, Empty, LBits(c)))

(* kex/oaep.go oaepSymmetricKey: kin = device random, context = owner random. *)
AsymDerive(devRnd, ownRnd, c) == Ok(KDF(Prf(c), <<devRnd>>, ownRnd, LBits(c)))
OaepOpen(x) == IF x.t = "oaep" /\ x.key = "owner" THEN [ok |-> TRUE, m |-> x.m] ELSE [ok |-> FALSE, m |-> None]

(* What FDO fixes, as a function of the configuration and both parties' randomness only. *)
ExpectedK(s, c, r1, r2) ==
    CASE Family(s) = "ecdh" -> KDF(Prf(c), <<DHz(PrivA(r1), Pub(PrivB(r2))), RndB(r2), RndA(r1)>>, Empty, LBits(c))
      [] Family(s) = "dh"   -> KDF(Prf(c), <<DHz(PrivA(r1), Pub(PrivB(r2)))>>, Empty, LBits(c))
      [] OTHER              -> KDF(Prf(c), <<RndB(r2)>>, RndA(r1), LBits(c))

-----------------------------------------------------------------------------
(* Degenerate / out-of-range peer parameters (classes; the Go concretizer expands each class).   *)
(* "reject" classes falsify a condition the property names; "either" classes touch what the      *)
(* property leaves open (the call is made, only panic-freedom is judged).                        *)
DegToA(s) ==
    CASE Family(s) = "dh"   -> {"dh_0", "dh_1", "dh_pm1", "dh_p", "dh_pp1", "dh_2p", "dh_empty", "dh_nil"}
      [] Family(s) = "ecdh" -> {"ec_empty", "ec_nil", "ec_truncated", "ec_coord_short", "ec_coord_long", "ec_offcurve",
                                "ec_zero_point", "ec_other_curve", "ec_reflect", "ec_rand_len", "ec_trailing"}
      [] OTHER              -> {"oaep_empty", "oaep_nil", "oaep_short", "oaep_long", "oaep_garbled", "oaep_other_key",
                                "oaep_msg_len"}
DegToB(s) ==
    CASE Family(s) = "dh"   -> {"dh_0", "dh_1", "dh_pm1", "dh_p", "dh_pp1", "dh_2p", "dh_empty"}
      [] Family(s) = "ecdh" -> {"ec_empty", "ec_truncated", "ec_coord_short", "ec_coord_long", "ec_offcurve",
                                "ec_zero_point", "ec_other_curve", "ec_rand_len", "ec_trailing"}
      [] OTHER              -> {}      \* xA of ASYMKEX is an opaque random: no value is out of range
EitherClasses == {"ec_reflect",     \* own public value reflected: the code derives keys from DHz(a, Pub(a)) (ReflectedKeyAccepted)
                  "ec_rand_len",    \* the peer's random has another length: the peer's choice
                  "ec_trailing",    \* bytes after the three fields are ignored by the code
                  "oaep_msg_len"}   \* well-formed OAEP encryption of a random of another length
MustReject(cls) == cls \notin EitherClasses
SecondClasses == {"replay", "fresh"}

-----------------------------------------------------------------------------
NewSess == [st |-> "new", xA |-> None, xB |-> None, priv |-> None, sek |-> None, svk |-> None]
NoDisk  == [t |-> "nodisk"]
NoInj   == [toA |-> "none", toB |-> "none"]

(* kex/*.go <suite>Persist structs: what MarshalCBOR writes. *)
Persisted == {"st", "xA", "xB", "priv", "sek", "svk"}
Marshal(a)   == [f \in Persisted |-> a[f]]
Unmarshal(d) == [f \in DOMAIN NewSess |-> IF f \in DOMAIN d THEN d[f] ELSE NewSess[f]]

Init ==
    /\ suite \in Suites /\ cipher \in Ciphers
    /\ A = [i \in Slots |-> NewSess] /\ B = [i \in Slots |-> NewSess]
    /\ wireA = [i \in Slots |-> None] /\ wireB = [i \in Slots |-> None]
    /\ disk = [i \in Slots |-> NoDisk] /\ dirty = [i \in Slots |-> TRUE]
    /\ nrest = [i \in Slots |-> 0]
    /\ inj = [i \in Slots |-> NoInj]
    /\ ra = [i \in Slots |-> 0] /\ rb = [i \in Slots |-> 0]
    /\ first = [i \in Slots |-> None]
    /\ last = [act |-> "Init", slot |-> 0, arg |-> "", res |-> "ok"]

Done(a, k)  == [a EXCEPT !.st = "done", !.sek = SEKof(k, cipher), !.svk = SVKof(k, cipher),
                         !.xA = IF a.xA = None THEN None ELSE Zeroed, !.xB = Zeroed, !.priv = IF a.priv = None THEN None ELSE Zeroed]
Erred(a)    == [a EXCEPT !.st = "err", !.sek = None, !.svk = None, !.priv = None]
Opaque(a, cls) == [a EXCEPT !.st = "done", !.sek = [t |-> "opaque", c |-> cls, w |-> "sek"], !.svk = [t |-> "opaque", c |-> cls, w |-> "svk"]]

(* A.Parameter(rand, ownerPub) *)
ParamA(i, r) ==
    /\ A[i].st = "new"
    /\ LET fam == Family(suite)
           x == CASE fam = "ecdh" -> EcParam(Pub(PrivA(r)), RndA(r))
                  [] fam = "dh"   -> Pub(PrivA(r))
                  [] OTHER        -> RndA(r)
       IN /\ A' = [A EXCEPT ![i] = [@ EXCEPT !.st = "param",
                                            !.priv = IF fam = "asym" THEN None ELSE PrivA(r),
                                            !.xA = IF fam = "dh" THEN None ELSE x]]  \* DHSession keeps only a
          /\ wireA' = [wireA EXCEPT ![i] = x]
    /\ ra' = [ra EXCEPT ![i] = r]
    /\ dirty' = [dirty EXCEPT ![i] = TRUE]
    /\ last' = [act |-> "ParamA", slot |-> i, arg |-> "", res |-> "ok"]
    /\ UNCHANGED <<suite, cipher, B, wireB, disk, nrest, inj, rb, first>>

(* kex.Suite.New(xA, cipher) on the device with the honest xA *)
NewB(i) ==
    /\ B[i].st = "new" /\ wireA[i] # None
    /\ B' = [B EXCEPT ![i] = [@ EXCEPT !.st = "have", !.xA = wireA[i]]]
    /\ last' = [act |-> "NewB", slot |-> i, arg |-> "", res |-> "ok"]
    /\ UNCHANGED <<suite, cipher, A, wireA, wireB, disk, dirty, nrest, inj, ra, rb, first>>

(* ... with a degenerate xA *)
DegenerateToB(i, cls) ==
    /\ i \in AdvSlots /\ cls \in DegToB(suite)
    /\ B[i].st = "new" /\ wireA[i] # None
    /\ B' = [B EXCEPT ![i] = [@ EXCEPT !.st = "have", !.xA = Deg(cls)]]
    /\ inj' = [inj EXCEPT ![i].toB = cls]
    /\ last' = [act |-> "NewBDeg", slot |-> i, arg |-> cls, res |-> "ok"]
    /\ UNCHANGED <<suite, cipher, A, wireA, wireB, disk, dirty, nrest, ra, rb, first>>

(* B.Parameter(rand, ownerPub): generates xB and derives the keys *)
ParamB(i, r) ==
    /\ B[i].st = "have"
    /\ LET fam == Family(suite)
           xa  == B[i].xA
           xb  == CASE fam = "ecdh" -> EcParam(Pub(PrivB(r)), RndB(r))
                    [] fam = "dh"   -> Pub(PrivB(r))
                    [] OTHER        -> Oaep("owner", RndB(r))
           d   == CASE fam = "ecdh" -> EcdhDerive(PrivB(r), xa, xb, cipher)
                    [] fam = "dh"   -> DhDerive(PrivB(r), xa, cipher)
                    [] OTHER        -> AsymDerive(RndB(r), xa, cipher)
           cls == inj[i].toB
       IN IF cls # "none" /\ ~MustReject(cls)
          THEN \* either-class: both outcomes are allowed, nothing is claimed about the keys
               /\ \/ B' = [B EXCEPT ![i] = Erred(@)] /\ last' = [act |-> "ParamB", slot |-> i, arg |-> "", res |-> "either"]
                  \/ B' = [B EXCEPT ![i] = Opaque(@, cls)] /\ last' = [act |-> "ParamB", slot |-> i, arg |-> "", res |-> "either"]
               /\ UNCHANGED wireB
          ELSE IF d.ok
               THEN /\ B' = [B EXCEPT ![i] = Done(@, d.k)]
                    /\ wireB' = [wireB EXCEPT ![i] = xb]
                    /\ last' = [act |-> "ParamB", slot |-> i, arg |-> "", res |-> "ok"]
               ELSE /\ B' = [B EXCEPT ![i] = Erred(@)]
                    /\ UNCHANGED wireB
                    /\ last' = [act |-> "ParamB", slot |-> i, arg |-> "", res |-> "err"]
    /\ rb' = [rb EXCEPT ![i] = r]
    /\ UNCHANGED <<suite, cipher, A, wireA, disk, dirty, nrest, inj, ra, first>>

(* The derivation A performs for a received parameter x *)
ADerive(i, x) ==
    LET fam == Family(suite) IN
    CASE fam = "ecdh" -> EcdhDerive(A[i].priv, A[i].xA, x, cipher)
      [] fam = "dh"   -> DhDerive(A[i].priv, x, cipher)
      [] OTHER        -> LET o == OaepOpen(x) IN IF o.ok THEN AsymDerive(o.m, A[i].xA, cipher) ELSE Fail

(* A.SetParameter(xB, ownerKey) with the honest xB *)
SetParam(i) ==
    /\ A[i].st = "param" /\ wireB[i] # None /\ inj[i].toA = "none"
    /\ LET d == ADerive(i, wireB[i])
       IN IF d.ok
          THEN /\ A' = [A EXCEPT ![i] = Done(@, d.k)]
               /\ first' = [first EXCEPT ![i] = [sek |-> SEKof(d.k, cipher), svk |-> SVKof(d.k, cipher)]]
               /\ last' = [act |-> "SetParam", slot |-> i, arg |-> "", res |-> "ok"]
          ELSE /\ A' = [A EXCEPT ![i] = Erred(@)]
               /\ UNCHANGED first
               /\ last' = [act |-> "SetParam", slot |-> i, arg |-> "", res |-> "err"]
    /\ dirty' = [dirty EXCEPT ![i] = TRUE]
    /\ UNCHANGED <<suite, cipher, B, wireA, wireB, disk, nrest, inj, ra, rb>>

(* A.SetParameter with a degenerate or out-of-range xB *)
DegenerateToA(i, cls) ==
    /\ i \in AdvSlots /\ cls \in DegToA(suite)
    /\ A[i].st = "param" /\ inj[i].toA = "none"
    /\ inj' = [inj EXCEPT ![i].toA = cls]
    /\ IF MustReject(cls)
       THEN LET d == ADerive(i, Deg(cls))        \* the design's own validation decides; DegenerateRejected judges
            IN IF d.ok
               THEN /\ A' = [A EXCEPT ![i] = Done(@, d.k)]
                    /\ last' = [act |-> "SetParamDeg", slot |-> i, arg |-> cls, res |-> "ok"]
               ELSE /\ A' = [A EXCEPT ![i] = Erred(@)]
                    /\ last' = [act |-> "SetParamDeg", slot |-> i, arg |-> cls, res |-> "err"]
       ELSE /\ \/ A' = [A EXCEPT ![i] = Erred(@)]
               \/ A' = [A EXCEPT ![i] = Opaque(@, cls)]
            /\ last' = [act |-> "SetParamDeg", slot |-> i, arg |-> cls, res |-> "either"]
    /\ dirty' = [dirty EXCEPT ![i] = TRUE]
    /\ UNCHANGED <<suite, cipher, B, wireA, wireB, disk, nrest, ra, rb, first>>

(* A second A.SetParameter on a completed session (replayed TO2.ProveDevice): an error, and the   *)
(* session keeps the keys it had.                                                                  *)
SecondSetParam(i, cls) ==
    /\ i \in AdvSlots /\ cls \in SecondClasses
    /\ A[i].st = "done" /\ inj[i].toA = "none"
    /\ last' = [act |-> "SecondSetParam", slot |-> i, arg |-> cls, res |-> "err"]
    /\ UNCHANGED <<suite, cipher, A, B, wireA, wireB, disk, dirty, nrest, inj, ra, rb, first>>

(* MarshalBinary (sqlite SetXSession) *)
Persist(i) ==
    /\ i \in AdvSlots /\ A[i].st \in {"param", "done"}
    /\ disk' = [disk EXCEPT ![i] = Marshal(A[i])]
    /\ dirty' = [dirty EXCEPT ![i] = FALSE]
    /\ last' = [act |-> "Persist", slot |-> i, arg |-> "", res |-> "ok"]
    /\ UNCHANGED <<suite, cipher, A, B, wireA, wireB, nrest, inj, ra, rb, first>>

(* UnmarshalBinary into a fresh session (sqlite XSession); the owner always restores the copy it   *)
(* wrote last, hence ~dirty.                                                                       *)
Restore(i) ==
    /\ i \in AdvSlots /\ disk[i] # NoDisk /\ ~dirty[i] /\ nrest[i] < MaxRestores
    /\ A' = [A EXCEPT ![i] = Unmarshal(disk[i])]
    /\ nrest' = [nrest EXCEPT ![i] = @ + 1]
    /\ last' = [act |-> "Restore", slot |-> i, arg |-> "", res |-> "ok"]
    /\ UNCHANGED <<suite, cipher, B, wireA, wireB, disk, dirty, inj, ra, rb, first>>

Next ==
    \E i \in Slots :
        \/ \E r \in Rands : ParamA(i, r) \/ ParamB(i, r)
        \/ NewB(i) \/ SetParam(i) \/ Persist(i) \/ Restore(i)
        \/ \E cls \in DegToA(suite) : DegenerateToA(i, cls)
        \/ \E cls \in DegToB(suite) : DegenerateToB(i, cls)
        \/ \E cls \in SecondClasses : SecondSetParam(i, cls)

Spec == Init /\ [][Next]_vars

(* Reduction for the quick configuration: sessions are independent (no action reads another slot), *)
(* so it suffices to let slot i+1 start once slot i has run its protocol steps.                     *)
Quiet(j) == A[j].st \in {"done", "err"} \/ B[j].st = "err"
NextOrdered ==
    \E i \in Slots :
        /\ \A j \in Slots : j < i => Quiet(j)
        /\ \/ \E r \in Rands : ParamA(i, r) \/ ParamB(i, r)
           \/ NewB(i) \/ SetParam(i) \/ Persist(i) \/ Restore(i)
           \/ \E cls \in DegToA(suite) : DegenerateToA(i, cls)
           \/ \E cls \in DegToB(suite) : DegenerateToB(i, cls)
           \/ \E cls \in SecondClasses : SecondSetParam(i, cls)
SpecOrdered == Init /\ [][NextOrdered]_vars

(* model checking view: the last-action register is an observation, not state *)
MCView == <<suite, cipher, A, B, wireA, wireB, disk, dirty, nrest, inj, ra, rb, first>>

-----------------------------------------------------------------------------
HasKeys(a) == a.sek # None
Honest(i)  == inj[i] = NoInj
Complete(i) == A[i].st = "done" /\ B[i].st = "done" /\ Honest(i)

TypeOK ==
    /\ suite \in AllSuites /\ cipher \in AllCiphers
    /\ \A i \in Slots : A[i].st \in {"new", "param", "done", "err"} /\ B[i].st \in {"new", "have", "done", "err"}

(* after SetParam both parties hold the same keys *)
Agreement == \A i \in Slots : Complete(i) => A[i].sek = B[i].sek /\ A[i].svk = B[i].svk

(* ... of exactly the lengths the cipher requires, SEK first *)
Lengths == \A i \in Slots : \A s \in {A[i], B[i]} :
    (s.st = "done" /\ Honest(i)) =>
        /\ s.sek.from = 0 /\ s.sek.n = KeyLen(cipher)
        /\ s.svk.from = KeyLen(cipher) /\ s.svk.n = MacKeyLen(cipher)
        /\ s.sek.of.L = LBits(cipher) /\ s.sek.of = s.svk.of

(* ... derived by the KDF from exactly the arguments FDO fixes; this also states that the outcome  *)
(* is a function of (suite, cipher, randomness) alone, i.e. independent of where A was restored.   *)
Derivation == \A i \in Slots : \A s \in {A[i], B[i]} :
    (s.st = "done" /\ Honest(i)) =>
        LET k == ExpectedK(suite, cipher, ra[i], rb[i])
        IN s.sek = SEKof(k, cipher) /\ s.svk = SVKof(k, cipher)
RestoreDoesNotChangeOutcome == Derivation

(* sessions that differ in either party's randomness have different keys *)
Fresh == \A i, j \in Slots :
    (i # j /\ Complete(i) /\ Complete(j) /\ <<ra[i], rb[i]>> # <<ra[j], rb[j]>>) =>
        /\ A[i].sek # A[j].sek
        /\ (MacKeyLen(cipher) > 0 => A[i].svk # A[j].svk)

(* a degenerate parameter gives an error and no keys *)
DegenerateRejected == \A i \in Slots :
    /\ (inj[i].toA # "none" /\ MustReject(inj[i].toA)) => (A[i].st = "err" /\ ~HasKeys(A[i]))
    /\ (inj[i].toB # "none" /\ MustReject(inj[i].toB) /\ B[i].st \notin {"new", "have"}) => (B[i].st = "err" /\ ~HasKeys(B[i]))
ErrorMeansNoKeys == \A i \in Slots : \A s \in {A[i], B[i]} : s.st = "err" => (s.sek = None /\ s.svk = None)
KeysOnlyWhenDone == \A i \in Slots : \A s \in {A[i], B[i]} : HasKeys(s) => s.st = "done"

(* persistence is transparent in every reachable state of A *)
RestoreTransparent == \A i \in Slots : Unmarshal(Marshal(A[i])) = A[i]

(* a completed session keeps its keys (second SetParameter, restore) *)
KeysStable == \A i \in Slots : (first[i] # None /\ Honest(i)) =>
    (A[i].st = "done" /\ A[i].sek = first[i].sek /\ A[i].svk = first[i].svk)

=============================================================================
