SPECIFICATION GenSpec
CONSTANTS
  MaxCmds = 3
  Policies = {"none"}
  Names = {"sh", "nosuch"}
  Progs = {"o1", "e1"}
  Ends = {"exit0", "exitN"}
  ArgUnits = {1}
  DevCap = 2
  OwnCap = 2
  Requests = {"o", "m", "me"}
  ResetBetween = TRUE
INVARIANTS Emit
