SPECIFICATION Spec
CONSTANTS
  Slots = {1, 2}
  Devs = {"dA"}
  Reuse = FALSE
  NMods = 1
  Policy = "none"
  Forge64 = {"resign_stranger"}
  Forge22 = {"resign_stranger", "strip_certchain"}
  Forge32 = {"resign_stranger"}
  Served = {"DI", "TO0", "TO1", "TO2"}
  MaxReq = 7
  WithMutants = FALSE
CONSTRAINT Bound
INVARIANTS TypeOK InOrder ErrorsHaveNoEffect NoTokenNoService FinalKills EffectsNeedProof ProvenOnlyByHonest64 ForgedRefused RedirectNeedsRegistration
PROPERTIES DeadStaysDead StoresChangeOnlyByProtocol
