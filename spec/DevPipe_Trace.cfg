SPECIFICATION TraceSpec
CONSTANTS
  Bound = 1000
  Vos = {0}
  Vds = {0}
  PerDs = {1}
  PerOs = {1}
  DefPer = 1
  Scaled = FALSE
POSTCONDITION TraceAccepted
CHECK_DEADLOCK FALSE
