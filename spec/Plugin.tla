------------------------------- MODULE Plugin -------------------------------
(***************************************************************************)
(* The line protocol between a service-info module adapter                 *)
(* (plugin.DeviceModule / plugin.OwnerModule) and its plugin process       *)
(* (package plugin of go-fdo).  Growth of the specification beyond the     *)
(* listed properties: plugin modules are one way of providing the modules  *)
(* whose streams C16 talks about.                                          *)
(*                                                                         *)
(* One action per line the adapter reads (protocol.Recv / DecodeValue):    *)
(* the adapter has sent Y (yield) and consumes what the plugin emits until *)
(* the plugin yields, breaks, is done, reports an error, exits, or emits   *)
(* something the adapter must refuse.  DecodeValue's recursion is the      *)
(* explicit stack `stk`.                                                   *)
(*                                                                         *)
(* Lines are abstract tokens (Alphabet); the harness maps each token to    *)
(* the concrete line ("K" base64(name), "1" decimal, ...).  Named          *)
(* deviation of the code, modelled as what it does: DanglingEndsOuter --   *)
(* an end-of-collection where a map value or a tagged value is expected    *)
(* is propagated as "end of collection" to the enclosing array/map, which  *)
(* then ends there (the inner map/tag is dropped); at the top level it is  *)
(* an error.                                                               *)
(***************************************************************************)
EXTENDS Naturals, Sequences, FiniteSets, TLC

CONSTANTS MaxLines,     \* bound on the number of lines the plugin emits
          Roles         \* subset of {"device", "owner"}

VARIABLES role,         \* which adapter runs: device (Yield) or owner (ProduceInfo)
          emitted,      \* the lines the plugin has emitted so far (history, drives the replay)
          key,          \* name of the message whose value is being decoded, or ""
          stk,          \* DecodeValue frames: [k: "arr"|"map"|"tag", items, pend (map key pending), haspend]
          obs,          \* observations: [o |-> "msg", name, val] and [o |-> "yield"]
          res           \* "running" | "yield" | "break" | "done" | "error"

vars == <<role, emitted, key, stk, obs, res>>

Scalars == {"I5", "Im1", "T", "N", "S", "X"}
Alphabet == {"Y", "B", "D", "E", "Ka", "Kb", "A", "M", "G", "Z", "EMPTY", "BADCMD", "BADB64", "BADINT", "BADBOOL", "MOD"} \cup Scalars

ScalarVal(t) ==
    CASE t = "I5" -> [t |-> "int", v |-> "5"]
      [] t = "Im1" -> [t |-> "int", v |-> "-1"]
      [] t = "T" -> [t |-> "bool", v |-> "true"]
      [] t = "N" -> [t |-> "null", v |-> ""]
      [] t = "S" -> [t |-> "str", v |-> "s"]
      [] t = "X" -> [t |-> "bytes", v |-> "x"]

NoVal == [t |-> "none", v |-> ""]
Frame(k) == [k |-> k, items |-> <<>>, pend |-> NoVal, haspend |-> FALSE]

Init ==
    /\ role \in Roles
    /\ emitted = <<>> /\ key = "" /\ stk = <<>> /\ obs = <<>> /\ res = "running"

Fail == res' = "error" /\ UNCHANGED <<key, stk, obs>>

(* A value is complete at the current nesting level: hand it to the         *)
(* enclosing frame, or finish the message.  Tag frames complete at once.    *)
RECURSIVE Deliver(_, _, _)
Deliver(v, s, o) ==      \* returns [stk, obs, key, res]
    IF s = <<>>
    THEN [stk |-> <<>>, obs |-> Append(o, [o |-> "msg", name |-> key, val |-> v]), key |-> "", res |-> "running"]
    ELSE LET f == s[Len(s)] rest == SubSeq(s, 1, Len(s) - 1) IN
         CASE f.k = "arr" -> [stk |-> Append(rest, [f EXCEPT !.items = Append(@, v)]), obs |-> o, key |-> key, res |-> "running"]
           [] f.k = "map" ->
                IF f.haspend
                THEN \* the adapter keeps maps as Go maps: a key that is a byte string, an array or a map cannot be
                     \* represented and has to be refused (the code panics here instead: known finding of X01)
                     IF f.pend.t \in {"bytes", "arr", "map"}
                     THEN [stk |-> s, obs |-> o, key |-> key, res |-> "error"]
                     ELSE [stk |-> Append(rest, [f EXCEPT !.items = Append(@, <<f.pend, v>>), !.pend = NoVal, !.haspend = FALSE]), obs |-> o, key |-> key, res |-> "running"]
                ELSE [stk |-> Append(rest, [f EXCEPT !.pend = v, !.haspend = TRUE]), obs |-> o, key |-> key, res |-> "running"]
           [] f.k = "tag" -> Deliver([t |-> "tag", v |-> v], rest, o)

Apply(r) == stk' = r.stk /\ obs' = r.obs /\ key' = r.key /\ res' = r.res

(* End of collection.  In an array, or in a map that expects a key, the     *)
(* collection is complete.  Where a map value or a tagged value is          *)
(* expected the code propagates "end of collection" outwards                *)
(* (DanglingEndsOuter): frames are dropped until an array, or a map that    *)
(* expects a key, takes it as its own end; at the top level it is an error. *)
RECURSIVE EndColl(_, _)
EndColl(s, o) ==
    IF s = <<>> THEN [stk |-> <<>>, obs |-> o, key |-> key, res |-> "error"]
    ELSE LET f == s[Len(s)] rest == SubSeq(s, 1, Len(s) - 1) IN
         IF f.k = "arr" THEN Deliver([t |-> "arr", v |-> f.items], rest, o)
         ELSE IF f.k = "map" /\ ~f.haspend THEN Deliver([t |-> "map", v |-> f.items], rest, o)
         ELSE EndColl(rest, o)          \* map waiting for a value, or tag: dropped, the end goes to the encloser

Line(tok) ==
    /\ res = "running" /\ Len(emitted) < MaxLines
    /\ emitted' = Append(emitted, tok)
    /\ UNCHANGED role
    /\ IF tok = "EMPTY" THEN UNCHANGED <<key, stk, obs, res>>                  \* empty lines are skipped
       ELSE IF tok \in {"BADCMD", "BADB64", "BADINT", "BADBOOL"} THEN
            \* an unknown command character fails everywhere; a parameter that does not parse fails where it is read
            Fail
       ELSE IF key = "" THEN                                                   \* scanning for a command
            CASE tok = "Y" -> res' = "yield" /\ UNCHANGED <<key, stk, obs>>
              [] tok = "B" -> IF role = "device" THEN obs' = Append(obs, [o |-> "yield", name |-> "", val |-> NoVal]) /\ UNCHANGED <<key, stk, res>>
                              ELSE res' = "break" /\ UNCHANGED <<key, stk, obs>>
              [] tok = "D" -> IF role = "owner" THEN res' = "done" /\ UNCHANGED <<key, stk, obs>> ELSE Fail
              [] tok = "E" -> Fail
              [] tok \in {"Ka", "Kb"} -> key' = (IF tok = "Ka" THEN "a" ELSE "b") /\ UNCHANGED <<stk, obs, res>>
              [] OTHER -> Fail                                                  \* a value before a message name, M/V
       ELSE                                                                    \* decoding the value of message `key`
            CASE tok \in Scalars -> Apply(Deliver(ScalarVal(tok), stk, obs))
              [] tok = "A" -> stk' = Append(stk, Frame("arr")) /\ UNCHANGED <<key, obs, res>>
              [] tok = "M" -> stk' = Append(stk, Frame("map")) /\ UNCHANGED <<key, obs, res>>
              [] tok = "G" -> stk' = Append(stk, Frame("tag")) /\ UNCHANGED <<key, obs, res>>
              [] tok = "Z" -> Apply(EndColl(stk, obs))
              [] OTHER -> Fail                                                  \* a control command inside a value

(* the plugin exits (end of its output) while the adapter is still reading *)
Exit ==
    /\ res = "running"
    /\ emitted' = Append(emitted, "EOF")
    /\ res' = "error"
    /\ UNCHANGED <<role, key, stk, obs>>

Next == (\E tok \in Alphabet : Line(tok)) \/ Exit
Spec == Init /\ [][Next]_vars

-----------------------------------------------------------------------------
TypeOK == res \in {"running", "yield", "break", "done", "error"} /\ Len(emitted) <= MaxLines + 1

(* a message reaches the module's peer only complete, under the name the    *)
(* plugin gave it, and only while the conversation is in order              *)
MsgsHaveNames == \A i \in 1..Len(obs) : obs[i].o = "msg" => obs[i].name \in {"a", "b"}
(* nothing is observed after the adapter stopped reading *)
StoppedIsFinal == [][res # "running" => UNCHANGED <<obs, key, stk, res>>]_vars
(* the owner never sees a device-style yield, a device never ends with break/done *)
RoleResults == (role = "device" => res \notin {"break", "done"}) /\ (role = "owner" => \A i \in 1..Len(obs) : obs[i].o = "msg")
(* a message is delivered only when its value is closed: no open frame survives a delivery *)
ClosedOnDelivery == key = "" => stk = <<>>
=============================================================================
