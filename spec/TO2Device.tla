----------------------------- MODULE TO2Device -----------------------------
(***************************************************************************)
(* The device side of TO2 up to the point where it commits (sends its own  *)
(* ProveDevice token, runs modules, returns a credential), against a peer  *)
(* and network that may do anything.  The peer's behaviour is a set of     *)
(* fault atoms; each atom falsifies - by construction of the concrete      *)
(* forgery, see harness/devexec - exactly the conditions listed in         *)
(* Falsifies.  The device machine mirrors to2.go: 61 is checked (type,     *)
(* HelloDevice hash, owner-key header, signature under the advertised key, *)
(* nonce echo), entries are fetched (index echo), then verifyVoucher runs  *)
(* header HMAC, manufacturer key hash, entry chain, advertised = last      *)
(* entry key, to1d signature, and only then 64 is sent.                    *)
(*                                                                         *)
(* C01: Sent64Only, CompleteOnly, FailGivesNoCred, MustFail.               *)
(***************************************************************************)
EXTENDS Naturals, Sequences, FiniteSets, TLC

CONSTANTS
    ChainLens,    \* chain lengths of the voucher presented (>= 1)
    MaxAtoms      \* how many fault atoms may be combined

Conds == {"Transport", "HelloHash", "OwnerKeyHdr", "PoPSig", "PoPNonce", "IndexEcho", "EntriesServed",
          "HdrMac", "MfgKeyHash", "Chain", "AdvertisedIsLast", "To1d"}

(* atom |-> [msg: where it strikes, f: conditions it makes false, minlen, to1d: needs a blob,     *)
(*           either: the property leaves the outcome open (unbound field / failure may come later)] *)
A(msg, f, minlen, to1d, either) == [msg |-> msg, f |-> f, minlen |-> minlen, to1d |-> to1d, either |-> either]
Atoms == [
    \* voucher as served by the owner (classes of Voucher.tla behaviours, isolating repairs applied)
    v_hdrmac            |-> A("voucher", {"HdrMac"}, 1, FALSE, FALSE),
    v_mfgkey            |-> A("voucher", {"MfgKeyHash"}, 1, FALSE, FALSE),
    v_chain             |-> A("voucher", {"Chain"}, 1, FALSE, FALSE),
    v_unbound           |-> A("voucher", {}, 1, FALSE, FALSE),
    \* TO2.ProveOVHdr (61)
    m61_type_wrong      |-> A("61", {"Transport"}, 1, FALSE, FALSE),
    m61_error           |-> A("61", {"Transport"}, 1, FALSE, FALSE),
    m61_truncated       |-> A("61", {"Transport"}, 1, FALSE, FALSE),
    m61_sig_flip        |-> A("61", {"PoPSig"}, 1, FALSE, FALSE),
    m61_payload_flip    |-> A("61", {"PoPSig"}, 1, FALSE, FALSE),
    m61_resign_stranger_keepadv |-> A("61", {"PoPSig"}, 1, FALSE, FALSE),
    m61_resign_stranger_adv |-> A("61", {"AdvertisedIsLast"}, 1, FALSE, FALSE),
    m61_resign_mfg_adv  |-> A("61", {"AdvertisedIsLast"}, 1, FALSE, FALSE),
    m61_resign_prev_adv |-> A("61", {"AdvertisedIsLast"}, 2, FALSE, FALSE),
    m61_nonce_alter     |-> A("61", {"PoPNonce"}, 1, FALSE, FALSE),
    m61_hellohash_alter |-> A("61", {"HelloHash"}, 1, FALSE, FALSE),
    m61_no_ownerkey     |-> A("61", {"OwnerKeyHdr"}, 1, FALSE, FALSE),
    m61_replay_old      |-> A("61", {"PoPNonce", "HelloHash"}, 1, FALSE, FALSE),
    m61_nument_plus     |-> A("61", {"EntriesServed"}, 1, FALSE, FALSE),
    m61_nument_minus    |-> A("61", {"AdvertisedIsLast"}, 1, FALSE, FALSE),
    m61_hdr_alter       |-> A("61", {"HdrMac", "Chain"}, 1, FALSE, FALSE),
    m61_hmac_alter      |-> A("61", {"HdrMac", "Chain"}, 1, FALSE, FALSE),
    m61_cuphnonce_alter |-> A("61", {}, 1, FALSE, TRUE),
    m61_siginfob_alter  |-> A("61", {}, 1, FALSE, TRUE),
    m61_maxmsg_alter    |-> A("61", {}, 1, FALSE, TRUE),
    m61_xa_alter        |-> A("61", {}, 1, FALSE, TRUE),
    \* TO2.OVNextEntry (63)
    m63_num_alter       |-> A("63", {"IndexEcho"}, 1, FALSE, FALSE),
    m63_sig_flip        |-> A("63", {"Chain"}, 1, FALSE, FALSE),
    m63_payload_flip    |-> A("63", {"Chain"}, 1, FALSE, FALSE),
    m63_swap            |-> A("63", {"Chain"}, 2, FALSE, FALSE),
    m63_same_twice      |-> A("63", {"Chain"}, 2, FALSE, FALSE),
    m63_error           |-> A("63", {"Transport"}, 1, FALSE, FALSE),
    m63_unprot_alter    |-> A("63", {}, 1, FALSE, TRUE),
    \* rendezvous blob
    to1d_payload_flip   |-> A("to1d", {"To1d"}, 1, TRUE, FALSE),
    to1d_sig_flip       |-> A("to1d", {"To1d"}, 1, TRUE, FALSE),
    to1d_resign_stranger |-> A("to1d", {"To1d"}, 1, TRUE, FALSE),
    to1d_resign_mfg     |-> A("to1d", {"To1d"}, 1, TRUE, FALSE),
    to1d_other_device   |-> A("to1d", {}, 1, TRUE, TRUE)
]
AT == TLCEval(Atoms)          \* evaluated once
AtomNames == DOMAIN AT

VARIABLES
    n,          \* chain length of the voucher the owner holds
    to1d,       \* a rendezvous blob is supplied
    atoms,      \* the fault atoms in force (set of names)
    falsified,  \* the conditions those atoms make false (derived once, constant during the run)
    either,     \* some atom leaves the outcome open
    phase,      \* hello, got61, entries, verified, sent64, served, done, failed
    fetched,    \* number of entries fetched so far
    sent64, modulesRan, result      \* result: none | cred | error

vars == <<n, to1d, atoms, falsified, either, phase, fetched, sent64, modulesRan, result>>

OK(c) == c \notin falsified
AllCond == falsified = {}
Either == either

Compatible(S, len, blob) ==
    /\ \A a \in S : AT[a].minlen <= len /\ (AT[a].to1d => blob)
    \* at most one atom per message position (the concrete forgeries of one message do not compose)
    /\ \A a, b \in S : a # b => AT[a].msg # AT[b].msg

SmallSets == {{}} \cup {{a} : a \in AtomNames}
             \cup (IF MaxAtoms >= 2 THEN {{a, b} : a \in AtomNames, b \in AtomNames} ELSE {})

Init ==
    /\ n \in ChainLens /\ to1d \in BOOLEAN
    /\ atoms \in {S \in SmallSets : Compatible(S, n, to1d)}
    /\ falsified = UNION {AT[a].f : a \in atoms}
    /\ either = \E a \in atoms : AT[a].either
    /\ phase = "hello" /\ fetched = 0 /\ sent64 = FALSE /\ modulesRan = FALSE /\ result = "none"

Fail == phase' = "failed" /\ result' = "error" /\ UNCHANGED <<n, to1d, atoms, falsified, either, fetched, sent64, modulesRan>>

(* 60 -> 61: sendHelloDevice *)
Recv61 ==
    /\ phase = "hello"
    /\ IF OK("Transport") /\ OK("HelloHash") /\ OK("OwnerKeyHdr") /\ OK("PoPSig") /\ OK("PoPNonce")
       THEN phase' = "entries" /\ UNCHANGED <<n, to1d, atoms, falsified, either, fetched, sent64, modulesRan, result>>
       ELSE Fail

(* 62 -> 63, once per announced entry: sendNextOVEntry *)
Announced == IF "m61_nument_plus" \in atoms THEN n + 1 ELSE IF "m61_nument_minus" \in atoms THEN n - 1 ELSE n
Recv63 ==
    /\ phase = "entries" /\ fetched < Announced
    /\ IF fetched + 1 > n                  \* the owner has no such entry: it answers with an error
       THEN Fail
       ELSE IF OK("IndexEcho") /\ ~(fetched = 0 /\ "m63_error" \in atoms)
            THEN fetched' = fetched + 1 /\ UNCHANGED <<n, to1d, atoms, falsified, either, phase, sent64, modulesRan, result>>
            ELSE Fail

(* verifyVoucher *)
Verify ==
    /\ phase = "entries" /\ fetched = Announced
    /\ IF OK("HdrMac") /\ OK("MfgKeyHash") /\ OK("Chain") /\ OK("AdvertisedIsLast") /\ OK("To1d") /\ OK("EntriesServed")
       THEN phase' = "verified" /\ UNCHANGED <<n, to1d, atoms, falsified, either, fetched, sent64, modulesRan, result>>
       ELSE Fail

Send64 ==
    /\ phase = "verified"
    /\ sent64' = TRUE /\ phase' = "sent64"
    /\ UNCHANGED <<n, to1d, atoms, falsified, either, fetched, modulesRan, result>>

(* after 64 the honest owner goes on; unbound alterations (wrong CUPH nonce, altered xA) may make *)
(* the owner or the tunnel fail later, which the property allows                                   *)
Serve ==
    /\ phase = "sent64"
    /\ \/ modulesRan' = TRUE /\ phase' = "served" /\ UNCHANGED <<n, to1d, atoms, falsified, either, fetched, sent64, result>>
       \/ Either /\ Fail
Finish ==
    /\ phase = "served"
    /\ phase' = "done" /\ result' = "cred"
    /\ UNCHANGED <<n, to1d, atoms, falsified, either, fetched, sent64, modulesRan>>

Next == Recv61 \/ Recv63 \/ Verify \/ Send64 \/ Serve \/ Finish
Spec == Init /\ [][Next]_vars /\ WF_vars(Next)

Terminal == phase \in {"done", "failed"}

(* C01 *)
Sent64Only      == sent64 => AllCond
CompleteOnly    == (modulesRan \/ result = "cred") => AllCond
FailGivesNoCred == phase = "failed" => result = "error"
MustFail        == (Terminal /\ ~AllCond) => (result = "error" /\ ~sent64 /\ ~modulesRan)
HonestCompletes == (Terminal /\ AllCond /\ ~Either) => result = "cred"
Terminates      == <>Terminal
=============================================================================
