----------------------------- MODULE Config_Gen -----------------------------
EXTENDS Config, Json
(* one line per configuration: the label the specification gives it *)
Emit == stage = 1 => PrintT("BEHAVIOUR " \o ToJson([cfg |-> cfg, valid |-> Valid(cfg), hash |-> HashFor(cfg.dev, cfg.owner)]))
=============================================================================
