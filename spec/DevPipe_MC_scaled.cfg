SPECIFICATION Spec
CONSTANTS
  Bound = 3
  Vos = {0, 1, 2, 3}
  Vds = {0, 1}
  PerDs = {1, 2, 3}
  PerOs = {1, 2}
  DefPer = 2
  Scaled = TRUE
INVARIANTS TypeOK Delivered
