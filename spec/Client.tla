------------------------------- MODULE Client -------------------------------
(***************************************************************************)
(* The client roles of go-fdo (device in DI, TO1, TO2; owner in TO0) as    *)
(* receivers of peer-supplied responses.  A role walks through its         *)
(* response positions; at each position the response is honest or a        *)
(* structure-aware mutation.  C10 for clients: whatever arrives, the role   *)
(* either goes on or returns an error - it never crashes, hangs or         *)
(* exhausts memory (those outcomes are not actions of this specification,  *)
(* so a recorded run that contains one is rejected).                       *)
(* A mutated response belongs to a class (MutantClasses): the level at     *)
(* which it is applied - on the wire, in the plaintext of a tunnel message *)
(* (65..71), or in the signed payload of 61 / 63 / 65 with the signature    *)
(* repaired - and the mutation family (random, struct, inner, volume).     *)
(* Client_Gen enumerates every (role, position, occurrence, class).        *)
(***************************************************************************)
EXTENDS Naturals, Sequences, TLC, MutantClasses

Positions == [DI |-> <<11, 13>>, TO0 |-> <<21, 23>>, TO1 |-> <<31, 33>>,
              TO2 |-> <<61, 63, 65, 67, 69, 69, 69, 71>>]     \* 69: devmod answered in two rounds, then one owner module
Roles == DOMAIN Positions

VARIABLES role, at, state     \* state: running | done | failed
vars == <<role, at, state>>

Init == role \in Roles /\ at = 1 /\ state = "running"

RecvHonest ==
    /\ state = "running"
    /\ IF at = Len(Positions[role]) THEN state' = "done" /\ UNCHANGED <<role, at>>
       ELSE at' = at + 1 /\ UNCHANGED <<role, state>>
(* a mutated response is rejected, or (when the mutation touches nothing the role depends on) *)
(* accepted like an honest one                                                                *)
RecvMutated ==
    /\ state = "running"
    /\ \/ state' = "failed" /\ UNCHANGED <<role, at>>
       \/ RecvHonest
(* ... of a given class: only where that class exists *)
RecvMutatedCls(lvl, fam) == CliApplies(Positions[role][at], lvl, fam) /\ RecvMutated
Next == RecvHonest \/ RecvMutated \/ \E lvl \in Levels, fam \in Families : RecvMutatedCls(lvl, fam)
Spec == Init /\ [][Next]_vars /\ WF_vars(Next)

TypeOK == state \in {"running", "done", "failed"} /\ at \in 1..Len(Positions[role])
Terminates == <>(state \in {"done", "failed"})
=============================================================================
