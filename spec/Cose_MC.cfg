\* quick: 8 algorithms x 4 payload kinds x detached x aad x every set of up to 3 altered fields (each
\* field with every value of its alphabet; orders collapsed by the canonical field order)
SPECIFICATION Spec
CONSTANTS
  Algs = {"ES256", "ES384", "RS256", "RS384", "PS256", "PS384", "HMAC256", "HMAC384"}
  PayloadKinds = {"empty", "raw", "large", "nested"}
  MaxAlter = 3
  OptsKeys = {"P-256", "P-384", "P-521", "RSA-2048", "RSA-3072"}
VIEW View
INVARIANTS TypeOK VerifyExact HonestVerifies AlteredNeverVerifies AlterationsDiffer CoversAll SignedOrRefused OptsVerify
