------------------------------- MODULE Store -------------------------------
(***************************************************************************)
(* Reference model of the server state interfaces as sqlite.DB implements  *)
(* them: token service (NewToken / InvalidateToken), per-session optional  *)
(* fields with per-field update semantics, voucher store (add / replace /  *)
(* remove), rendezvous blobs with expiry, and closing / reopening the      *)
(* database.  Values are opaque ids.                                       *)
(*                                                                         *)
(* C18: Isolation (a get under token t returns the last value set under t  *)
(* for that field, never one set under another token), DeadToken           *)
(* (invalidated, foreign or damaged tokens grant nothing), Reopen is the   *)
(* identity, ReplaceVoucher makes the new one retrievable and the old one  *)
(* gone, an expired blob is not found.                                     *)
(***************************************************************************)
EXTENDS Naturals, Sequences, FiniteSets, TLC

CONSTANTS Toks,       \* token slots
          Vals,       \* opaque values
          Guids,      \* voucher / blob keys
          MaxOps

(* fields and how a second write behaves *)
UpsertFields == {"to0nonce", "to1nonce", "guid", "rvinfo", "pnonce", "snonce", "mtu", "devmod", "rguid", "rhmac", "xsess"}
OnceFields   == {"ivh"}          \* plain INSERT under a UNIQUE session: the second write fails
FirstFields  == {"certchain"}    \* plain INSERT without uniqueness: the first row keeps being read (named deviation FirstCertChainWins)
Fields == UpsertFields \cup OnceFields \cup FirstFields
TokClasses == {"live", "none", "damaged", "foreign"}

VARIABLES
    tok,        \* [Toks -> "unused" | "live" | "dead"]
    sess,       \* [Toks -> [Fields -> Vals \cup {"unset"}]]
    vouchers,   \* [Guids -> Vals \cup {"absent"}]
    blobs,      \* [Guids -> [v: Vals \cup {"absent"}, expired: BOOLEAN]]
    last,       \* last operation and its result
    nops

vars == <<tok, sess, vouchers, blobs, last, nops>>

Unset == [f \in Fields |-> "unset"]
Init ==
    /\ tok = [t \in Toks |-> "unused"]
    /\ sess = [t \in Toks |-> Unset]
    /\ vouchers = [g \in Guids |-> "absent"]
    /\ blobs = [g \in Guids |-> [v |-> "absent", expired |-> FALSE]]
    /\ last = [op |-> "init"]
    /\ nops = 0

Op(rec) == last' = rec /\ nops' = nops + 1

NewToken(t) ==
    /\ tok[t] = "unused"
    /\ tok' = [tok EXCEPT ![t] = "live"]
    /\ Op([op |-> "newtoken", t |-> t, res |-> "ok"])
    /\ UNCHANGED <<sess, vouchers, blobs>>

(* cls: how the caller presents slot t's token *)
Usable(t, cls) == cls = "live" /\ tok[t] = "live"

Invalidate(t, cls) ==
    /\ tok[t] # "unused" /\ cls \in TokClasses
    /\ IF Usable(t, cls)
       THEN /\ tok' = [tok EXCEPT ![t] = "dead"]
            /\ sess' = [sess EXCEPT ![t] = Unset]               \* ON DELETE CASCADE
            /\ Op([op |-> "invalidate", t |-> t, cls |-> cls, res |-> "ok"])
       ELSE /\ UNCHANGED <<tok, sess>>
            \* a well-formed token of a deleted session deletes nothing and reports no error;
            \* anything else is not a session of this store
            /\ Op([op |-> "invalidate", t |-> t, cls |-> cls, res |-> IF cls = "live" THEN "ok" ELSE "notfound"])
    /\ UNCHANGED <<vouchers, blobs>>

Set(t, cls, f, v) ==
    /\ tok[t] # "unused" /\ cls \in TokClasses /\ f \in Fields /\ v \in Vals
    /\ IF Usable(t, cls)
       THEN IF f \in OnceFields /\ sess[t][f] # "unset"
            THEN /\ UNCHANGED sess /\ Op([op |-> "set", t |-> t, cls |-> cls, f |-> f, v |-> v, res |-> "err"])
            ELSE /\ sess' = [sess EXCEPT ![t][f] = IF f \in FirstFields /\ sess[t][f] # "unset" THEN sess[t][f] ELSE v]
                 /\ Op([op |-> "set", t |-> t, cls |-> cls, f |-> f, v |-> v, res |-> "ok"])
       ELSE /\ UNCHANGED sess
            \* dead session: the row cannot be created (foreign key); bad token: invalid session
            /\ Op([op |-> "set", t |-> t, cls |-> cls, f |-> f, v |-> v, res |-> IF cls = "live" THEN "err" ELSE "invalid"])
    /\ UNCHANGED <<tok, vouchers, blobs>>

Get(t, cls, f) ==
    /\ tok[t] # "unused" /\ cls \in TokClasses /\ f \in Fields
    /\ LET r == IF Usable(t, cls)
                THEN (IF sess[t][f] = "unset" THEN [res |-> "notfound", v |-> "unset"] ELSE [res |-> "ok", v |-> sess[t][f]])
                ELSE [res |-> IF cls = "live" THEN "notfound" ELSE "invalid", v |-> "unset"]
       IN Op([op |-> "get", t |-> t, cls |-> cls, f |-> f, res |-> r.res, v |-> r.v])
    /\ UNCHANGED <<tok, sess, vouchers, blobs>>

AddVoucher(g, v) ==
    /\ g \in Guids /\ v \in Vals
    /\ IF vouchers[g] = "absent"
       THEN vouchers' = [vouchers EXCEPT ![g] = v] /\ Op([op |-> "addvoucher", g |-> g, v |-> v, res |-> "ok"])
       ELSE UNCHANGED vouchers /\ Op([op |-> "addvoucher", g |-> g, v |-> v, res |-> "err"])
    /\ UNCHANGED <<tok, sess, blobs>>

GetVoucher(g) ==
    /\ g \in Guids
    /\ Op([op |-> "voucher", g |-> g, res |-> IF vouchers[g] = "absent" THEN "notfound" ELSE "ok", v |-> IF vouchers[g] = "absent" THEN "unset" ELSE vouchers[g]])
    /\ UNCHANGED <<tok, sess, vouchers, blobs>>

(* replace voucher g by a voucher with guid g2 and value v *)
ReplaceVoucher(g, g2, v) ==
    /\ g \in Guids /\ g2 \in Guids /\ v \in Vals
    /\ IF vouchers[g] # "absent" /\ vouchers[g2] = "absent" /\ g # g2
       THEN vouchers' = [vouchers EXCEPT ![g] = "absent", ![g2] = v] /\ Op([op |-> "replacevoucher", g |-> g, g2 |-> g2, v |-> v, res |-> "ok"])
       ELSE UNCHANGED vouchers /\ Op([op |-> "replacevoucher", g |-> g, g2 |-> g2, v |-> v, res |-> "err"])
    /\ UNCHANGED <<tok, sess, blobs>>

RemoveVoucher(g) ==
    /\ g \in Guids
    /\ IF vouchers[g] # "absent"
       THEN vouchers' = [vouchers EXCEPT ![g] = "absent"] /\ Op([op |-> "removevoucher", g |-> g, res |-> "ok", v |-> vouchers[g]])
       ELSE UNCHANGED vouchers /\ Op([op |-> "removevoucher", g |-> g, res |-> "notfound", v |-> "unset"])
    /\ UNCHANGED <<tok, sess, blobs>>

SetBlob(g, v) ==
    /\ g \in Guids /\ v \in Vals
    /\ blobs' = [blobs EXCEPT ![g] = [v |-> v, expired |-> FALSE]]
    /\ Op([op |-> "setblob", g |-> g, v |-> v, res |-> "ok"])
    /\ UNCHANGED <<tok, sess, vouchers>>

Expire(g) ==
    /\ g \in Guids /\ blobs[g].v # "absent"
    /\ blobs' = [blobs EXCEPT ![g].expired = TRUE]
    /\ Op([op |-> "expire", g |-> g, res |-> "ok"])
    /\ UNCHANGED <<tok, sess, vouchers>>

GetBlob(g) ==
    /\ g \in Guids
    /\ LET ok == blobs[g].v # "absent" /\ ~blobs[g].expired
       IN Op([op |-> "blob", g |-> g, res |-> IF ok THEN "ok" ELSE "notfound", v |-> IF ok THEN blobs[g].v ELSE "unset"])
    /\ UNCHANGED <<tok, sess, vouchers, blobs>>

(* closing and reopening the database file, fresh server objects *)
Reopen ==
    /\ Op([op |-> "reopen", res |-> "ok"])
    /\ UNCHANGED <<tok, sess, vouchers, blobs>>

Next ==
    /\ nops < MaxOps
    /\ \/ \E t \in Toks : NewToken(t)
       \/ \E t \in Toks, c \in TokClasses : Invalidate(t, c)
       \/ \E t \in Toks, c \in TokClasses, f \in Fields, v \in Vals : Set(t, c, f, v)
       \/ \E t \in Toks, c \in TokClasses, f \in Fields : Get(t, c, f)
       \/ \E g \in Guids, v \in Vals : AddVoucher(g, v) \/ SetBlob(g, v)
       \/ \E g \in Guids : GetVoucher(g) \/ RemoveVoucher(g) \/ Expire(g) \/ GetBlob(g)
       \/ \E g, g2 \in Guids, v \in Vals : ReplaceVoucher(g, g2, v)
       \/ Reopen

Spec == Init /\ [][Next]_vars

-----------------------------------------------------------------------------
(* a get that succeeds returns what is stored under that very token *)
Isolation == (last.op = "get" /\ last.res = "ok") => (tok[last.t] = "live" /\ last.cls = "live" /\ last.v = sess[last.t][last.f])
(* tokens that are not live sessions of this store grant nothing *)
DeadToken == (last.op \in {"get", "set"} /\ (last.cls # "live" \/ tok[last.t] # "live")) => last.res \in {"notfound", "invalid", "err"}
DeadHasNoState == \A t \in Toks : tok[t] # "live" => sess[t] = Unset
ReplaceMovesVoucher ==
    (last.op = "replacevoucher" /\ last.res = "ok") => (vouchers[last.g2] = last.v /\ vouchers[last.g] = "absent")
ExpiredNotFound == (last.op = "blob" /\ last.res = "ok") => ~blobs[last.g].expired
ReopenIsIdentity == [][last'.op = "reopen" => (tok' = tok /\ sess' = sess /\ vouchers' = vouchers /\ blobs' = blobs)]_vars
=============================================================================
