\* exhaustive (thorough tier): narrow leaves, nesting depth 3
SPECIFICATION Spec
CONSTANTS
  Ints <- DeepInts
  Strs <- DeepStrs
  Tags <- DeepTags
  Simples <- AllSimples
  MaxStack = 4
  MaxNodes = 5
  MaxDepth = 3
  MaxArr = 3
  MaxPairs = 2
  AllowWrap = TRUE
INVARIANTS Theorems 
