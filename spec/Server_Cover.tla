---------------------------- MODULE Server_Cover ----------------------------
(* Transition coverage: breadth-first exploration of Server.tla (one        *)
(* worker) with a history variable that is hidden from the fingerprint by   *)
(* a VIEW, so every distinct state is kept once, with a shortest history.   *)
(* Whenever the step that led to a state belongs to a class of exchanges    *)
(* not seen before - (kind, type, token class, body class, response,        *)
(* effects, abstract session state after the step) - the history is printed *)
(* as a behaviour.  Replaying all of them gives one implementation test per *)
(* class of specification transition reachable within the bound, instead of *)
(* whatever random walks happen to reach.                                   *)
EXTENDS Server, Json

CONSTANT Fine      \* BOOLEAN: fine classes (whole session column set and store state) or coarse ones
VARIABLE hist

CoverInit == Init /\ hist = <<>>
CoverNext == nreq < MaxReq /\ Next /\ hist' = Append(hist, last')
CoverSpec == CoverInit /\ [][CoverNext]_<<vars, hist>>
CoverView == vars

Class ==
    IF last.kind \in {"init", "expire", "restart"} THEN <<last.kind>>
    ELSE LET r == sess[last.s] IN
         IF Fine
         THEN <<last.kind, last.t, last.tok, last.b, last.resp, last.fx # <<>>, last.live,
                r.proto, r.st, r.mod, r.proven, r.live,
                IF r.dev \in Devs THEN <<rv[r.dev], ov[r.dev], cred[r.dev]>> ELSE <<>> >>
         ELSE <<last.kind, last.t, last.tok, last.b, last.resp, last.fx # <<>>, last.live,
                r.proto, r.st \cap {"kexDone", "mtu", "rhmac", "devmod"}, r.mod, r.proven>>

Emit ==
    LET seen == TLCGet(7) IN
    IF Class \in seen THEN TRUE
    ELSE TLCSet(7, seen \cup {Class}) /\ PrintT("BEHAVIOUR " \o ToJson(hist))

ASSUME TLCSet(7, {})
=============================================================================
