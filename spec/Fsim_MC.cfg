SPECIFICATION Spec
CONSTANTS
  Modules = {"download", "upload", "wget"}
  MaxLen = 7
  ChunkLens = {1, 2, 3}
  Deltas = {1, 2, 3}
INVARIANTS TypeOK SuccessIdentical MismatchFails NeverPartial HonestSucceeds CorruptFails
