---------------------------- MODULE Command_Gen ----------------------------
(* Behaviour generation for X02: every session of Command.tla for the constants of the configuration is  *)
(* printed when it is over: the device policy and, for every command of the session, its scenario (name, *)
(* program, how it ends, MayFail / Stdout / Stderr requested, size of the args) with what the            *)
(* specification says about it: the result (done: exit code reported, owner module complete, TO2 goes    *)
(* on / fail: TO2 ends with an error), the exit code reported, how many units each writer received,      *)
(* whether the command ran at all, whether the args needed more than one 69 and whether a stream needed  *)
(* more than one 68.  checks/x02.py maps a scenario onto concrete scripts, argument sizes and MTUs.      *)
(* Command_Gen.cfg: single commands, all dimensions; Command_Gen_sess.cfg: sessions of up to three        *)
(* commands through one device module instance.                                                          *)
EXTENDS Command, Json

VARIABLE hist     \* the commands of the session that are over

GenInit == Init /\ hist = <<>>

Rec == [sc |-> sc, expect |-> res', code |-> IF res' = "done" THEN oExit' ELSE NoExit,
        out |-> IF res' = "done" THEN oGot'[1].n ELSE -1, err |-> IF res' = "done" THEN oGot'[2].n ELSE -1,
        ran |-> pState' # "none", blocked |-> sc.args >= DevCap,
        chunked |-> WritesOf(sc, 1) > OwnCap \/ WritesOf(sc, 2) > OwnCap]

GenNext ==
    /\ Next
    /\ hist' = IF cstage' = "end" /\ cstage # "end" THEN Append(hist, Rec) ELSE hist

GenSpec == GenInit /\ [][GenNext]_<<vars, hist>>

Emit == sstage \in {"done", "failed"} =>
    PrintT("BEHAVIOUR " \o ToJson([policy |-> policy, n |-> ncmds, cmds |-> hist]))
=============================================================================
