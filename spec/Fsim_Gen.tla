------------------------------ MODULE Fsim_Gen ------------------------------
(* Behaviour generation for C17: every maximal behaviour of Fsim.tla for the small constants is       *)
(* printed with its scenario, the actions taken and the verdict (placed / failed).  checks/c17.py maps  *)
(* a scenario (module, number of chunks, partial last chunk, corruption, which chunk, length delta       *)
(* relative to the chunk) onto concrete file sizes, chunk sizes and MTUs.                                *)
EXTENDS Fsim, Json

VARIABLE hist

GenInit == Init /\ hist = <<>>

Act ==
    CASE annLen' # annLen -> [a |-> "announce_len", len |-> annLen']
      [] annDig' # annDig -> [a |-> "announce_dig", ok |-> annDig' = "src"]
      [] nchunk' # nchunk -> [a |-> "data", n |-> rcvLen' - rcvLen, same |-> taint' = taint]
      [] OTHER            -> [a |-> "end", result |-> result', dest |-> dest', stalled |-> rcvLen < annLen /\ sc.mod # "wget"]

GenNext == Next /\ hist' = Append(hist, Act)

GenSpec == GenInit /\ [][GenNext]_<<vars, hist>>

Emit == stage = "end" =>
    PrintT("BEHAVIOUR " \o ToJson([sc |-> sc, steps |-> hist, expect |-> IF result = "success" THEN "placed" ELSE "failed"]))
=============================================================================
