------------------------------ MODULE Fsim_Gen ------------------------------
(* Behaviour generation for C17: every maximal behaviour of Fsim.tla for the small constants is       *)
(* printed as a session: the module, MustDownload, and for every transfer of the session its scenario   *)
(* (module, length, chunk, corruption, which chunk, length delta, HTTP server behaviour) with the        *)
(* verdict of the specification (placed / failed, stalled).  checks/c17.py maps a scenario onto          *)
(* concrete file sizes, chunk sizes, MTUs and HTTP responses.  Fsim_Gen.cfg: single transfers, dense;     *)
(* Fsim_Gen_sess.cfg: sessions of up to three transfers through one module instance.                     *)
EXTENDS Fsim, Json

VARIABLE xs      \* the transfers of the session that have ended

GenInit == Init /\ xs = <<>>

GenNext ==
    /\ Next
    /\ xs' = IF stage' = "end" /\ stage # "end"
             THEN Append(xs, [sc |-> sc, expect |-> IF result' = "success" THEN "placed" ELSE "failed",
                              stalled |-> stalled', nchunks |-> nchunk])
             ELSE xs

GenSpec == GenInit /\ [][GenNext]_<<vars, xs>>

Emit == sstage = "over" =>
    PrintT("BEHAVIOUR " \o ToJson([sess |-> sess, xs |-> xs]))
=============================================================================
