---------------------------- MODULE Voucher_Gen ----------------------------
(* Every reachable (honest voucher, adversary steps) pair with the verdicts  *)
(* the specification assigns to it, printed for replay against voucher.go.   *)
EXTENDS Voucher, Json

Verdict == [ops |-> ops, verify |-> AllVerify(v), owner |-> OwnerKey(v), secrets |-> secrets,
            vec |-> [hdr |-> VerifyHeader(v), mfg |-> VerifyMfgKey(v), cc |-> VerifyCCHash(v), ents |-> VerifyEntries(v)],
            len |-> Len(v.ents)]
Emit == PrintT("BEHAVIOUR " \o ToJson(Verdict))
=============================================================================
