SPECIFICATION GenSpec
CONSTANTS
  VolClasses = {"few", "some", "near"}
  MtuClasses = {"small", "default", "large", "max"}
  DelayClasses = {"none", "slowmodule", "slowwriter", "slowtransport"}
INVARIANTS Emit
