---------------------------- MODULE Chunk_Trace ----------------------------
(* Trace validation: runs recorded from the real chunking pipeline          *)
(* (harness/chunkx) must be behaviours of Chunk.tla.                        *)
(*                                                                          *)
(* Events of one run (NDJSON, one per line):                                *)
(*   reset{mtu}                      new run                                *)
(*   script{ops}                     the writer's whole script (program     *)
(*                                   order); or one event per operation:    *)
(*   next{key} write{n} yield close                                         *)
(*   read{size,out,key,n,kv,c0,seq}  one ReadChunk call of the packing loop;*)
(*        out=small|eof carry {nkv,arr}: the batch that ends here and its   *)
(*        serviceinfo.ArraySizeCBOR                                         *)
(*        a write may carry n = 0 (an empty Write call); operations that    *)
(*        follow close in the script are the writer's calls after Close     *)
(*   late{op,failed}                 the outcome of one call after Close,   *)
(*                                   in program order: it must have failed  *)
(*   werr{msg}                       an error (or panic) seen by the writer *)
(*                                   in a call before or at Close           *)
(*   feeds{count}                    every chunk read was given, in order,  *)
(*                                   to ChunkWriter.WriteChunk, then Close  *)
(*   feed{key,n} feedclose           the same, one event per call; n = 0 is *)
(*                                   a WriteChunk with an empty value       *)
(*   unchunk{key,n,c0,seq}           NextServiceInfo + body read to the end *)
(*   end                             the run completed                      *)
(*   hang{where} crash{msg}          instruments; no action produces them   *)
(* The writer's operations are logged before the reads of the same run:     *)
(* at byte-count level a read is enabled exactly when its result is         *)
(* determined, so "writer first" is a linearization of every schedule.      *)
(* Deterministic results are asserted as equalities.  A line that no action *)
(* explains is printed as TRACE_REJECT and the rest of its run is skipped,  *)
(* so that one batch file can carry many rejected runs.                     *)
EXTENDS Chunk, Json

VARIABLES l, skip

Trace == ndJsonDeserialize("trace.ndjson")
Ev == Trace[l]
Has(f) == f \in DOMAIN Ev

Mod251(x) == x % 251

ReadMatches ==
    {r \in ReadOutcomes(budget) :
        /\ r.out = Ev.out
        /\ r.out = "chunk" =>
             /\ r.key = Ev.key /\ r.n = Ev.n /\ r.kv = Ev.kv
             /\ Ev.seq = TRUE
             /\ Ev.c0 = Mod251(StartOf(r.i) + r.off)}

RECURSIVE WellFormed(_, _, _, _)
WellFormed(ops, j, open, tot) ==  \* a write needs an open message; a message has at least one byte in all
    IF j > Len(ops) THEN TRUE
    ELSE CASE ops[j].op = "next"  -> (open => tot >= 1) /\ WellFormed(ops, j + 1, TRUE, 0)
           [] ops[j].op = "write" -> open /\ ops[j].n >= 0 /\ WellFormed(ops, j + 1, TRUE, tot + ops[j].n)
           [] ops[j].op = "yield" -> (open => tot >= 1) /\ WellFormed(ops, j + 1, FALSE, 0)
           [] ops[j].op = "close" -> (open => tot >= 1)
                                     /\ \A i \in (j + 1)..Len(ops) : ops[i].op \in {"next", "write", "yield", "close"}
           [] OTHER -> FALSE

ClosePos(ops) == CHOOSE j \in 1..Len(ops) : ops[j].op = "close" /\ \A i \in 1..(j - 1) : ops[i].op # "close"
LateOf(ops) == IF \E j \in 1..Len(ops) : ops[j].op = "close" THEN SubSeq(ops, ClosePos(ops) + 1, Len(ops)) ELSE <<>>

RECURSIVE FeedAll(_, _)
FeedAll(a, j) == IF j > Len(out) THEN a ELSE FeedAll(FeedOne(a, out[j]), j + 1)

Cond ==
    CASE Ev.ev = "script" -> ~wdone /\ pipes = <<>> /\ WellFormed(Ev.ops, 1, FALSE, 0)
      [] Ev.ev = "late"  -> wdone /\ pc <= Len(script) /\ script[pc].op = Ev.op /\ Ev.failed = TRUE
      [] Ev.ev = "next"  -> ~wdone
      [] Ev.ev = "write" -> ~wdone /\ CanWrite(pipes) /\ Ev.n >= 0
      [] Ev.ev = "yield" -> ~wdone
      [] Ev.ev = "close" -> ~wdone
      [] Ev.ev = "read"  -> /\ ~eof /\ Ev.size = budget /\ Ev.out \in {"chunk", "small", "eof"} /\ ReadMatches # {}
                            /\ Ev.out \in {"small", "eof"} => Ev.nkv = Len(batch) /\ Ev.arr = ArraySize(batch)
      [] Ev.ev = "feeds" -> ~Has("err") /\ eof /\ fed = 0 /\ ~feedclosed /\ Ev.count = Len(out)
      [] Ev.ev = "feed"  -> /\ ~Has("err")
                            /\ IF Ev.n = 0 THEN CanFeedEmpty(Ev.key)
                               ELSE /\ fed < Len(out) /\ ~feedclosed
                                    /\ out[fed + 1].key = Ev.key /\ out[fed + 1].n = Ev.n
      [] Ev.ev = "feedclose" -> ~Has("err") /\ eof /\ fed = Len(out) /\ ~feedclosed
      [] Ev.ev = "unchunk" -> /\ ~Has("err") /\ taken < Len(asm) /\ (taken + 1 < Len(asm) \/ feedclosed)
                              /\ asm[taken + 1].key = Ev.key /\ asm[taken + 1].n = Ev.n
                              /\ Ev.seq = TRUE /\ Ev.c0 = Mod251(StartOf(asm[taken + 1].i))
      [] Ev.ev = "end"   -> Terminal /\ pc > Len(script)
      [] OTHER -> FALSE        \* werr, hang, crash, unknown

ReaderSame == UNCHANGED <<mtu, pos, budget, batch, sent, out, eof, fed, feedclosed, asm, taken, last>>
RestUnch == ReaderSame /\ UNCHANGED <<script, pc>>

Eff ==
    CASE Ev.ev = "script" -> /\ pipes' = RunScript(Ev.ops, 1, <<>>)
                             /\ wdone' = (\E j \in 1..Len(Ev.ops) : Ev.ops[j].op = "close")
                             /\ script' = LateOf(Ev.ops) /\ pc' = 1      \* the calls after Close still to be reported
                             /\ ReaderSame
      [] Ev.ev = "late"  -> WLate /\ pc' = pc + 1 /\ ReaderSame /\ UNCHANGED script
      [] Ev.ev = "next"  -> WNext(Ev.key) /\ RestUnch
      [] Ev.ev = "write" -> WWrite(Ev.n) /\ RestUnch
      [] Ev.ev = "yield" -> WYield /\ RestUnch
      [] Ev.ev = "close" -> WClose /\ RestUnch
      [] Ev.ev = "read"  -> /\ Apply(CHOOSE r \in ReadMatches : TRUE)
                            /\ UNCHANGED <<mtu, pipes, wdone, fed, feedclosed, asm, taken, script, pc>>
      [] Ev.ev = "feeds" -> /\ fed' = Len(out) /\ asm' = FeedAll(<<>>, 1) /\ feedclosed' = TRUE
                            /\ UNCHANGED <<mtu, pipes, wdone, pos, budget, batch, sent, out, eof, taken, last, script, pc>>
      [] Ev.ev = "feed"  -> IF Ev.n = 0 THEN FeedEmpty(Ev.key) ELSE Feed
      [] Ev.ev = "feedclose" -> FeedClose
      [] Ev.ev = "unchunk" -> Unchunk
      [] OTHER -> UNCHANGED vars     \* end

TReset ==
    /\ mtu' = Ev.mtu /\ budget' = Ev.mtu
    /\ pos' = [i |-> 1, off |-> 0]
    /\ batch' = <<>> /\ sent' = <<>> /\ out' = <<>> /\ eof' = FALSE
    /\ fed' = 0 /\ feedclosed' = FALSE /\ asm' = <<>> /\ taken' = 0
    /\ last' = [out |-> "init", yield |-> FALSE]
    /\ pipes' = <<>> /\ wdone' = FALSE /\ script' = <<>> /\ pc' = 1
    /\ skip' = FALSE

TraceInit == InitReader(0) /\ pipes = <<>> /\ wdone = FALSE /\ script = <<>> /\ pc = 1 /\ l = 1 /\ skip = FALSE

TraceNext ==
    /\ l <= Len(Trace)
    /\ l' = l + 1
    /\ IF Ev.ev = "reset" THEN TReset
       ELSE IF skip THEN UNCHANGED <<vars, skip>>
       ELSE IF Cond THEN Eff /\ UNCHANGED skip
       ELSE PrintT(<<"TRACE_REJECT", l>>) /\ skip' = TRUE /\ UNCHANGED vars

TraceSpec == TraceInit /\ [][TraceNext]_<<vars, l, skip>>

TraceAccepted ==
    LET d == TLCGet("stats").diameter - 1 IN
    /\ PrintT(<<"TRACE_HWM", d>>)
    /\ d = Len(Trace)
=============================================================================
