---------------------------- MODULE Client_Trace ----------------------------
(* One line per mutated client run: role, mutated position, outcome.  The     *)
(* run is accepted iff the outcome is one the specification has for a role   *)
(* that received a mutated response at that position: "ok" or "error".       *)
EXTENDS Client, Json

VARIABLE l
Trace == ndJsonDeserialize("trace.ndjson")
Ev == Trace[l]

InRole(r, p) == \E i \in 1..Len(Positions[r]) : Positions[r][i] = p
(* the whole run as one step: honest receipts up to the mutated position, the mutated receipt, *)
(* then honest receipts to the end or failure                                                  *)
TRun ==
    /\ Ev.role \in Roles /\ InRole(Ev.role, Ev.pos)
    /\ Ev.outcome \in {"ok", "error"}
    /\ ("fam" \in DOMAIN Ev => CliApplies(Ev.pos, Ev.level, Ev.fam))     \* classed mutants: the class exists at this position
    /\ role' = Ev.role /\ at' = 1
    /\ state' = IF Ev.outcome = "ok" THEN "done" ELSE "failed"
TraceInit == Init /\ l = 1
TraceNext == l <= Len(Trace) /\ l' = l + 1 /\ TRun
TraceSpec == TraceInit /\ [][TraceNext]_<<vars, l>>
TraceAccepted == LET d == TLCGet("stats").diameter - 1 IN PrintT(<<"TRACE_HWM", d>>) /\ d = Len(Trace)
=============================================================================
