SPECIFICATION TraceSpec
CONSTANTS
  Toks = {1, 2, 3}
  Vals = {"a", "b"}
  Guids = {"g1", "g2", "g3"}
  MaxOps = 100000
INVARIANTS Isolation DeadToken DeadHasNoState ReplaceMovesVoucher ExpiredNotFound
PROPERTIES ReopenIsIdentity
POSTCONDITION TraceAccepted
