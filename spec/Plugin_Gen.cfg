SPECIFICATION Spec
CONSTANTS
  MaxLines = 4
  Roles = {"device", "owner"}
INVARIANTS Emit
