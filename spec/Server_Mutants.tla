--------------------------- MODULE Server_Mutants ---------------------------
(* C10, server side: where the classes of hostile input (MutantClasses) apply. *)
(*                                                                           *)
(* A mutant of Server.tla (Mutant / MutantStart) is "some structure-aware    *)
(* mutation".  This module adds the level and the family of the mutation -   *)
(* the two dimensions that decide which code a mutant can reach at all - and *)
(* enumerates, breadth first, every message position together with every     *)
(* session state an honest prefix can reach, times every deterministic class *)
(* that applies there.  One behaviour is printed per (position, session      *)
(* state, level, family); the harness delivers every mutant of that class to *)
(* the real handler in that state.  The outcomes are those of Server.tla: an *)
(* error (or acceptance, when the mutation touches nothing that is checked); *)
(* crash, hang and unbounded allocation are not actions.                     *)
EXTENDS Server, MutantClasses, Json

VARIABLES hist, phase, cls

MInit == Init /\ hist = <<>> /\ phase = "prefix" /\ cls = <<>>

(* The library's device delivers devmod in exactly two messages (it yields after "nummodules"), *)
(* which Server.tla leaves open; the prefixes generated here are the ones the real device walks. *)
DevmodInTwo ==
    (last'.kind = "honest" /\ last'.t = 68 /\ sess[last'.s].mod = 0)
        => sess'[last'.s].mod = IF "devmod" \in sess[last'.s].st THEN 1 ELSE 0

(* honest progress only, and only steps that succeed *)
Prefix ==
    /\ phase = "prefix"
    /\ \/ \E s \in Slots, p \in Protos, d \in Devs \cup {"new"} : Start(s, p, d)
       \/ \E s \in Slots : Honest(s)
    /\ last'.resp # 255
    /\ DevmodInTwo
    /\ hist' = Append(hist, last')
    /\ UNCHANGED <<phase, cls>>

(* the message the session expects next (or its start message, when nothing followed it yet), mutated *)
Classed(s, t, lvl, fam) ==
    LET r == sess[s] IN
    /\ phase = "prefix"
    /\ r.proto # "none" /\ r.live
    /\ SrvApplies(t, lvl, fam) /\ fam \in Deterministic
    /\ \/ t \in ReqTypes /\ r.cnext = t /\ Mutant(s, t)
       \/ t \in StartTypes /\ t = StartType[r.proto] /\ r.sent = {t} /\ MutantStart(s, t)
    /\ hist' = Append(hist, last' @@ [lvl |-> lvl, fam |-> fam, kex |-> SrvKex(t), enc |-> SrvKeyEnc(t)])
    /\ phase' = "done"
    /\ cls' = <<t, lvl, fam, r.proto, r.st, r.mod, r.proven>>

MNext ==
    /\ nreq < MaxReq
    /\ \/ Prefix
       \/ \E s \in Slots, t \in ReqTypes \cup StartTypes, lvl \in Levels, fam \in Families : Classed(s, t, lvl, fam)

MSpec == MInit /\ [][MNext]_<<vars, hist, phase, cls>>
MView == <<vars, phase, cls>>

Emit ==
    IF phase # "done" THEN TRUE
    ELSE LET seen == TLCGet(8) IN
         IF cls \in seen THEN TRUE
         ELSE TLCSet(8, seen \cup {cls}) /\ PrintT("BEHAVIOUR " \o ToJson(hist))

ASSUME TLCSet(8, {})
=============================================================================
