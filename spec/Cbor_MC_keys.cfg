\* exhaustive: map key order, keys of every head size, two pairs per map
SPECIFICATION Spec
CONSTANTS
  Ints <- KeyInts
  Strs <- KeyStrs
  Tags <- NoTags
  Simples <- NoSimples
  MaxStack = 4
  MaxNodes = 5
  MaxDepth = 2
  MaxArr = 0
  MaxPairs = 2
  AllowWrap = FALSE
INVARIANTS Theorems 
