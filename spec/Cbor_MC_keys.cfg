SPECIFICATION Spec
CONSTANTS
  Ints <- KeyInts
  Strs <- KeyStrs
  Tags <- DeepTags
  MaxStack = 4
  MaxNodes = 5
  MaxDepth = 2
  MaxArr = 0
  MaxPairs = 2
INVARIANTS TypeOK RoundTrip SelfDelimiting NoItemIsAPrefix PrefixFree CanonicalEncoding ReEncode HeadIsShortest WrapIsExact
