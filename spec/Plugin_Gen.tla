----------------------------- MODULE Plugin_Gen -----------------------------
(* Every conversation of Plugin.tla up to the bound, with what the adapter  *)
(* must have observed and returned; replayed on plugin.DeviceModule.Yield   *)
(* and plugin.OwnerModule.ProduceInfo with an in-process plugin.            *)
EXTENDS Plugin, Json

Emit == (res # "running") =>
    PrintT("BEHAVIOUR " \o ToJson([role |-> role, lines |-> emitted, obs |-> obs, res |-> res]))
=============================================================================
