---------------------------- MODULE Server_Trace ----------------------------
(* Trace validation: every exchange recorded from the real go-fdo server   *)
(* stack must be a step of Server.tla with the same observable outcome     *)
(* (response type, effects, token liveness), and every invariant of        *)
(* Server.tla is evaluated in every state of the implementation trace.     *)
EXTENDS Server, MutantClasses, Json

VARIABLE l

Trace == ndJsonDeserialize("trace.ndjson")
Ev == Trace[l]

FxName(f) ==
    CASE f.k = "AddVoucher"     -> "AddVoucher"
      [] f.k = "SetRVBlob"      -> "SetRVBlob:" \o f.d \o ":" \o ToString(f.ttl)
      [] f.k = "ReplaceVoucher" -> "ReplaceVoucher:" \o f.d
      [] f.k = "ModuleCall"     -> "ModuleCall:" \o ToString(f.m)
      [] f.k = "KeysStored"     -> "KeysStored"
FxNames(fx) == [i \in 1..Len(fx) |-> FxName(fx[i])]

(* the logged outcome must be the outcome the specification allows *)
Match == /\ last'.resp = Ev.resp
         /\ FxNames(last'.fx) = Ev.fx
         /\ last'.live = Ev.live

(* an accepted mutant of TO0.OwnerSign may have asked for another time-to-live (the wait seconds are *)
(* part of what is mutated): the harness reports the stored value of mutants as "any"               *)
FxNameMutant(f) == IF f.k = "SetRVBlob" THEN "SetRVBlob:" \o f.d \o ":any" ELSE FxName(f)
MatchMutant == /\ last'.resp = Ev.resp
               /\ [i \in 1..Len(last'.fx) |-> FxNameMutant(last'.fx[i])] = Ev.fx
               /\ last'.live = Ev.live

TStart   == Ev.kind = "start"  /\ Start(Ev.s, Ev.p, Ev.d) /\ Match
THonest  == Ev.kind = "honest" /\ Honest(Ev.s) /\ last'.t = Ev.t /\ Match
TForged  == Ev.kind = "forged" /\ Mutated(Ev.s, Ev.b) /\ last'.t = Ev.t /\ Match
TInject  == /\ Ev.kind = "inject"
            /\ \/ Ev.t \in ReqTypes /\ Inject(Ev.s, Ev.t, Ev.tok, Ev.b)
               \/ Ev.t \in PlainRespTypes /\ InjectRespType(Ev.s, Ev.t, Ev.tok)
            /\ Match
TMutant  == /\ Ev.kind = "mutant"
            /\ \/ Ev.b = "http" /\ MutantHttp(Ev.s, Ev.t)
               \/ Ev.b # "http" /\ Ev.t \in ReqTypes /\ Mutant(Ev.s, Ev.t)
               \/ Ev.b # "http" /\ Ev.t \in StartTypes /\ MutantStart(Ev.s, Ev.t)
               \/ Ev.b # "http" /\ Ev.t = 255 /\ MutantError(Ev.s)
            /\ ("fam" \in DOMAIN Ev => SrvApplies(Ev.t, Ev.b, Ev.fam))     \* classed mutants (Server_Mutants): the class exists at this message
            /\ MatchMutant
TOrphan  == Ev.kind = "orphan" /\ OrphanStart(Ev.s, Ev.t, Ev.b) /\ Match
TErrMsg  == Ev.kind = "errmsg" /\ ErrorMsg(Ev.s, Ev.tok) /\ Match
TExpire  == /\ Ev.kind = "expire"
            /\ \/ rv[Ev.d] \in {"reg", "regnc"} /\ Expire(Ev.d)
               \/ rv[Ev.d] \notin {"reg", "regnc"} /\ UNCHANGED vars
TRestart == Ev.kind = "restart" /\ Restart
TReset   == /\ Ev.kind = "reset"
            /\ sess' = [s \in Slots |-> NoSess]
            /\ rv' = [d \in Devs |-> "none"]
            /\ ov' = [d \in Devs |-> "orig"]
            /\ cred' = [d \in Devs |-> "orig"]
            /\ nvouch' = 0 /\ nreq' = 0
            /\ last' = [kind |-> "init"]

TraceInit == Init /\ l = 1

TraceNext ==
    /\ l <= Len(Trace)
    /\ l' = l + 1
    /\ (TStart \/ THonest \/ TForged \/ TInject \/ TMutant \/ TOrphan \/ TErrMsg \/ TExpire \/ TRestart \/ TReset)

TraceSpec == TraceInit /\ [][TraceNext]_<<vars, l>>

TraceAccepted ==
    LET d == TLCGet("stats").diameter - 1 IN
    /\ PrintT(<<"TRACE_HWM", d>>)
    /\ d = Len(Trace)
=============================================================================
