SPECIFICATION Spec
INVARIANTS TypeOK
PROPERTIES Terminates
