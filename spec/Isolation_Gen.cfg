SPECIFICATION GenSpec
CONSTANTS
  Devs = {"d1", "d2", "d3", "d4", "d5", "d6"}
  Kinds = {"P256", "P384", "RSA2048RESTR"}
  Encs = {"X509", "X5CHAIN", "COSE"}
  Rvs = {1, 2}
  Mtus = {"small", "default", "large"}
  ModCounts = {0, 1, 2}
  Vols = {1, 4}
  OwnerChain = TRUE
  Memo = FALSE
INVARIANTS Emit
