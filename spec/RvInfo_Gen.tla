----------------------------- MODULE RvInfo_Gen -----------------------------
(* Behaviour generation for RvInfo.tla: every emitted result is printed as *)
(* "BEHAVIOUR <json>" = (role, instruction list with value classes,        *)
(* expected abstract result).  Exhaustive mode enumerates every list up    *)
(* to MaxLen; simulation mode (SimSpec) draws longer lists with a bias     *)
(* towards the variables that make up addresses and towards values that    *)
(* take effect.                                                            *)
EXTENDS RvInfo, Json, Randomization

GenEmit ==
    phase = "emitted" =>
        PrintT("BEHAVIOUR " \o ToJson([role |-> role, instrs |-> consumed, expect |-> result]))

AddrVars == {RVIPAddress, RVDevPort, RVOwnerPort, RVDns, RVProtocol}

Drawn(id) ==
    LET r == RandomElement(1..10)
        c == RandomElement(1..2)
        pool == IF r <= 5 THEN UNION {InstrsOf(v, id) : v \in AddrVars}
                ELSE IF r = 6 THEN InstrsOf(RVDevOnly, id) \cup InstrsOf(RVOwnerOnly, id)
                ELSE Instrs(id)
        eff == {i \in pool : i.cls \in {"valid", "boundary"}}
    IN IF c = 1 /\ eff # {} THEN eff ELSE pool

SimNext ==
    \/ Len(consumed) < MaxLen /\ \E i \in Drawn(Len(consumed) + 1) : Consume(i)
    \/ Len(consumed) = MaxLen /\ Emit

SimSpec == Init /\ [][SimNext]_vars
=============================================================================
