\* simulation: lists of length 4 (tlc -simulate), full alphabet
SPECIFICATION SimSpec
CONSTANTS
  MaxLen = 4
  Classes = {"valid", "boundary", "malformed", "wrongtype", "empty", "range"}
  Full = TRUE
INVARIANTS GenEmit
