----------------------------- MODULE DevPipe_Gen -----------------------------
(* Run classes for the device-side pipeline of C19: volume classes in both   *)
(* directions (up to just below the documented buffering bound), the size    *)
(* classes of both sides and where the delays are injected.  TLC enumerates  *)
(* the classes; the concretiser (checks/c19.py) draws the numbers.           *)
EXTENDS Naturals, Sequences, TLC, Json

CONSTANTS VolClasses, MtuClasses, DelayClasses
VARIABLE k

Classes == [vo : VolClasses, vd : VolClasses, omtu : MtuClasses, dmtu : MtuClasses, delay : DelayClasses]
GenInit == k \in Classes
GenNext == UNCHANGED k
GenSpec == GenInit /\ [][GenNext]_k
(* every class is below the bound: the pipeline must terminate with everything delivered in order *)
Emit == PrintT("BEHAVIOUR " \o ToJson(k @@ [must |-> "terminate"]))
=============================================================================
