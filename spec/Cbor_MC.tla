------------------------------ MODULE Cbor_MC ------------------------------
(* Constants for the exhaustive check of Cbor.tla.                           *)
(*   wide : every head-size boundary of integers, strings and tags, shallow   *)
(*   keys : map key order over keys of every head size, two pairs per map     *)
(*   deep : few leaves, nesting depth 3 (maps in arrays in tags ...)          *)
(*   long : strings of 255/256 bytes (two-byte length heads)                  *)
EXTENDS Cbor

FF(k) == [i \in 1..k |-> 255]
Pow(k) == <<1>> \o [i \in 1..k |-> 0]          \* 256^k
Txt(n, s) == [i \in 1..n |-> 97 + ((i + s) % 26)]

\* 0, 1, 23, 24, 255, 256, 65535, 65536, 2^32-1, 2^32, 2^63-1, 2^63, 2^64-1
Mags == {<<>>, <<1>>, <<23>>, <<24>>, FF(1), Pow(1), FF(2), Pow(2), FF(4), Pow(4),
         <<127>> \o FF(7), <<128>> \o [i \in 1..7 |-> 0], FF(8)}

\* -1-n for the same magnitudes: -1, -2, -24, -25, -256, -257, ..., -2^63, -2^63-1, -2^64
WideInts == {UInt(m) : m \in Mags} \cup {NInt(m) : m \in Mags}
WideStrs == {BStr(<<>>), BStr(<<0>>), BStr(Txt(23, 0)), BStr(Txt(24, 0)),
             TStr(<<>>), TStr(<<97>>), TStr(<<98>>), TStr(<<97, 97>>), TStr(Txt(23, 1)), TStr(Txt(24, 1))}
WideTags == {<<>>, <<1>>, <<18>>, <<24>>, Pow(1), FF(8)}

\* map key order: keys of every head size and both string kinds, two pairs per map
KeyInts == {UInt(<<>>), UInt(<<24>>), UInt(FF(1)), UInt(Pow(1)), UInt(Pow(2)), NInt(<<>>), NInt(<<24>>)}
KeyStrs == {TStr(<<>>), TStr(<<98>>), TStr(<<97, 97>>)}
\* the same for the quick tier (exhaustive over fewer keys)
KeyIntsQ == {UInt(<<>>), UInt(<<24>>), UInt(FF(1)), UInt(Pow(1)), NInt(<<>>), NInt(<<24>>)}
KeyStrsQ == {TStr(<<>>), TStr(<<98>>), TStr(<<97, 97>>)}     \* "b" sorts after "aa" as a string, before it as an encoding
NoTags == {}
NoSimples == {}
AllSimples == {False, True, Null}

\* two-byte length heads: strings of 255 and 256 bytes (TLC is slow on long sequences, so few items)
LongInts == {UInt(<<>>)}
LongStrs == {BStr(Txt(255, 0)), BStr(Txt(256, 0)), TStr(Txt(255, 1)), TStr(Txt(256, 1))}

DeepInts == {UInt(<<>>), UInt(<<24>>), NInt(<<>>), NInt(Pow(1))}
DeepStrs == {BStr(<<1>>), TStr(<<97>>), TStr(<<>>)}
DeepTags == {<<18>>}
=============================================================================
