-------------------------- MODULE Lifecycle_Trace --------------------------
(* Trace validation for C03: after every action of a recorded history the   *)
(* projection of the real state (who holds a voucher agreeing with the      *)
(* device's credential, store sizes, run result) must equal the projection  *)
(* of the specification state.                                              *)
EXTENDS Lifecycle, Json

VARIABLE l
Trace == ndJsonDeserialize("trace.ndjson")
Ev == Trace[l]

CutOf(e) == IF e.cutkind = "none" THEN NoCut ELSE [kind |-> e.cutkind, t |-> e.cutt]
Match == Proj' = [ok |-> Ev.ok, hasCred |-> Ev.hasCred, mfgN |-> Ev.mfgN, ownerN |-> Ev.ownerN,
                  agreeM |-> Ev.agreeM, agreeO |-> Ev.agreeO, rvLive |-> Ev.rvLive, hasBlob |-> Ev.hasBlob]

TDI       == Ev.a = "di" /\ DI(CutOf(Ev)) /\ Match
THandover == Ev.a = "handover" /\ Handover(Ev.k) /\ Match
TTO2      == Ev.a = "to2" /\ TO2(Ev.reuse, CutOf(Ev), Ev.useblob) /\ Match
TResell   == Ev.a = "resell" /\ Resell /\ Match
TPersist  == Ev.a = "persist" /\ Persist /\ Match
TResellBad == Ev.a = "resellbad" /\ ResellBad /\ Match
TRestore  == Ev.a = "restore" /\ Restore /\ Match
TResellMissing == Ev.a = "resellmissing" /\ ResellMissing /\ Match
TRegister == Ev.a = "register" /\ Register /\ Match
TExpire   == Ev.a = "expire" /\ Expire /\ Match
TLocate   == Ev.a = "locate" /\ Locate /\ Match
TReset    == /\ Ev.a = "reset"
             /\ cred' = NoCred /\ mfgStore' = {} /\ ownerStore' = {} /\ ownerKey' = 1 /\ nextGuid' = 1
             /\ last' = [a |-> "init", ok |-> TRUE] /\ cuts' = 0 /\ steps' = 0
             /\ aio' = Ev.aio /\ rv' = {} /\ blob' = NoBlob /\ held' = NoV

TraceInit == Init /\ l = 1
TraceNext == /\ l <= Len(Trace) /\ l' = l + 1
             /\ (TDI \/ THandover \/ TTO2 \/ TResell \/ TPersist \/ TReset
                 \/ TResellBad \/ TRestore \/ TResellMissing \/ TRegister \/ TExpire \/ TLocate)
TraceSpec == TraceInit /\ [][TraceNext]_<<vars, l>>
TraceAccepted == LET d == TLCGet("stats").diameter - 1 IN PrintT(<<"TRACE_HWM", d>>) /\ d = Len(Trace)
=============================================================================
