------------------------------ MODULE SvcInfo ------------------------------
(***************************************************************************)
(* The TO2 service-info loop of go-fdo (to2.go exchangeServiceInfo /        *)
(* exchangeServiceInfoRound on the device, TO2Server.ownerServiceInfo /     *)
(* produceOwnerServiceInfo on the owner, to2_module.go dispatch) as the     *)
(* property C16 sees it: byte streams between modules.                      *)
(*                                                                         *)
(* A stream is (direction, module, message).  Every byte a module writes    *)
(* travels through three FIFO stages:                                       *)
(*    device module --dev_wrote--> qdw --m68--> qdx --owner_got--> owner    *)
(*    owner module --owner_wrote--> qow --m69--> qo --dev_got--> device     *)
(* A stage only ever hands on the head of its queue (in order, exactly      *)
(* once, possibly in fragments); TO2 may end with Done only when every      *)
(* queue is empty.  One action = one observable event of the real code (a   *)
(* module call or a plaintext 68/69 at the device's transport), so the      *)
(* same actions serve model checking (parameters chosen by TLC), behaviour  *)
(* generation (module scripts) and trace validation (parameters bound from  *)
(* recorded events, SvcInfo_Trace.tla).                                     *)
(*                                                                         *)
(* Every action is  AllOK(checks) /\ update ; `checks` is a sequence of     *)
(* <<name, condition>> so that a rejected implementation event can be       *)
(* reported by the name of the first condition it falsifies.                *)
(*                                                                         *)
(* Named deviations of the code that the specification adopts:              *)
(*  DiscardAfterDone   what a device module writes while the message with   *)
(*                     IsDone is dispatched is dropped (the device must     *)
(*                     send Done next);                                     *)
(*  OrphanDropped      device service info addressed to an owner module     *)
(*                     that already completed has no peer: it may be        *)
(*                     dropped, it must not reach another module;           *)
(*  UnknownAutoAnswer  "active" for a module the device does not have is    *)
(*                     answered active=false by the library itself;         *)
(*  InactiveFails      any other message for an inactive module is never    *)
(*                     delivered; dropping it or failing TO2 is allowed.    *)
(*  BlockedWhileMore   what the owner sends with IsMoreServiceInfo is       *)
(*                     dispatched to device modules only after the 68/69    *)
(*                     pair without more-flags that ends the round.         *)
(***************************************************************************)
EXTENDS Integers, Sequences, FiniteSets, TLC

VARIABLES
    cfg,      \* run configuration: omods (Seq of names), dmods (set of names the device implements),
              \*                    devnames (sorted Seq the device reports), devmod (record of descriptors)
    ph,       \* "devmod" | "run" | "final" | "ok" | "failed"
    turn,     \* "dev": the device may send a 68;  "own": the owner is handling one
    dmdone,   \* the owner obtained devmod (module list complete)
    oidx,     \* number of owner modules that reported completion
    qdw,      \* device -> owner: written by device modules, not yet in a 68
    qdx,      \* device -> owner: in the 68 being handled, not yet given to the owner module
    qow,      \* owner -> device: written by the owner module in this ProduceInfo, not yet in a 69
    qo,       \* owner -> device: received by the device, not yet dispatched (tagged with the round)
    wrote,    \* stream -> bytes written by the producing module
    got,      \* stream -> bytes received by the consuming module
    disc,     \* stream -> bytes dropped under DiscardAfterDone / OrphanDropped
    wdig,     \* stream -> <<length, digest>> of the writer at its last write
    active,   \* device module -> BOOLEAN
    ctxm,     \* device module currently inside Receive/Yield ("none")
    devMore,  \* IsMoreServiceInfo of the 68 being handled
    flags,    \* [produced, block, doneNow, orph]: what happened while the owner handled this 68
    round,    \* completed device rounds (a round ends with a 68/69 pair carrying no more-flag)
    sent70,   \* the device sent TO2.Done
    last      \* the last event (for behaviour generation)

vars == <<cfg, ph, turn, dmdone, oidx, qdw, qdx, qow, qo, wrote, got, disc, wdig, active, ctxm, devMore,
          flags, round, sent70, last>>

-----------------------------------------------------------------------------
Get(f, s)    == IF s \in DOMAIN f THEN f[s] ELSE 0
Put(f, s, v) == [x \in DOMAIN f \cup {s} |-> IF x = s THEN v ELSE f[x]]
Add(f, s, n) == Put(f, s, Get(f, s) + n)
Range(q)     == {q[i] : i \in 1..Len(q)}

D2O(m, g) == <<"d2o", m, g>>
O2D(m, g) == <<"o2d", m, g>>

Seg(m, g, n, r) == [m |-> m, g |-> g, n |-> n, r |-> r]

(* Remove n bytes of stream (m, g) from the head of q.  <<TRUE, rest>> or <<FALSE, q>>. *)
RECURSIVE Take(_, _, _, _, _)
Take(q, m, g, n, maxr) ==
    IF n = 0 THEN <<TRUE, q>>
    ELSE IF q = <<>> THEN <<FALSE, q>>
    ELSE LET h == q[1] IN
         IF h.m # m \/ h.g # g \/ h.r > maxr THEN <<FALSE, q>>
         ELSE IF h.n <= n THEN Take(Tail(q), m, g, n - h.n, maxr)
         ELSE <<TRUE, <<[h EXCEPT !.n = h.n - n]>> \o Tail(q)>>

(* Remove the key-value list of a 68 (each <<module, message, n, content ok>>) from the head of q. *)
RECURSIVE TakeAll(_, _)
TakeAll(q, kvs) ==
    IF kvs = <<>> THEN <<TRUE, q>>
    ELSE LET t == Take(q, kvs[1][1], kvs[1][2], kvs[1][3], 1000000) IN
         IF t[1] THEN TakeAll(t[2], Tail(kvs)) ELSE <<FALSE, q>>

SelectKV(kvs, P(_)) == SelectSeq(kvs, P)
AsSegs(kvs, r) == [i \in 1..Len(kvs) |-> Seg(kvs[i][1], kvs[i][2], kvs[i][3], r)]
Bytes(q) == LET RECURSIVE S(_)
                S(i) == IF i = 0 THEN 0 ELSE q[i].n + S(i - 1)
            IN S(Len(q))

(* check lists *)
AllOK(c)     == \A i \in 1..Len(c) : c[i][2]
FirstFail(c) == LET bad == {i \in 1..Len(c) : ~c[i][2]} IN
                IF bad = {} THEN "ok" ELSE c[CHOOSE i \in bad : \A j \in bad : i <= j][1]

NOwner  == Len(cfg.omods)
CurMod  == IF ~dmdone THEN "devmod" ELSE IF oidx < NOwner THEN cfg.omods[oidx + 1] ELSE "none"
AllDone == dmdone /\ oidx = NOwner
Known(m)    == m \in cfg.dmods
IsActive(m) == m \in DOMAIN active /\ active[m]
NoFlags == [produced |-> FALSE, block |-> FALSE, doneNow |-> FALSE, completed |-> FALSE, dmnow |-> FALSE, orph |-> <<>>]

Dispatchable(q) == q # <<>> /\ q[1].r < round

(* UnknownAutoAnswer.  The library answers "active" for a module the device does not have by itself   *)
(* (active=false) when the dispatcher reaches that message; no module is called, so there is no event. *)
(* Every device-side action therefore first looks through such messages at the head of qo:            *)
(*   AQo   = qo without them,  AQdw / AWrote / AGot = the queues and counters with the answers added.  *)
RECURSIVE AutoStrip(_, _)
AutoStrip(q, acc) ==
    IF Dispatchable(q) /\ q[1].g = "active" /\ ~Known(q[1].m)
    THEN AutoStrip(Tail(q), Append(acc, q[1].m))
    ELSE <<q, acc>>
Auto  == AutoStrip(qo, <<>>)
AQo   == Auto[1]
AMods == Auto[2]
RECURSIVE AddAll(_, _, _, _)
AddAll(f, dir, ms, i) == IF i > Len(ms) THEN f ELSE AddAll(Add(f, <<dir, ms[i], "active">>, 1), dir, ms, i + 1)
AGot   == AddAll(got, "o2d", AMods, 1)
AQdw   == IF ph = "final" THEN qdw ELSE qdw \o [i \in 1..Len(AMods) |-> Seg(AMods[i], "active", 1, 0)]    \* DiscardAfterDone
AWrote == IF ph = "final" THEN wrote ELSE AddAll(wrote, "d2o", AMods, 1)

(* The head of qo can never be delivered: a message other than "active" for a module that is not active. *)
Undeliverable   == Dispatchable(AQo) /\ AQo[1].g # "active" /\ ~IsActive(AQo[1].m)

Init0(c) ==
    /\ cfg = c
    /\ ph = "devmod" /\ turn = "dev" /\ dmdone = FALSE /\ oidx = 0
    /\ qdw = <<>> /\ qdx = <<>> /\ qow = <<>> /\ qo = <<>>
    /\ wrote = <<>> /\ got = <<>> /\ disc = <<>> /\ wdig = <<>>
    /\ active = <<>> /\ ctxm = "none" /\ devMore = FALSE /\ flags = NoFlags
    /\ round = 0 /\ sent70 = FALSE
    /\ last = [ev |-> "config"]

(* The same as an action: a new run begins (trace validation concatenates runs). *)
Reset(c) ==
    /\ cfg' = c
    /\ ph' = "devmod" /\ turn' = "dev" /\ dmdone' = FALSE /\ oidx' = 0
    /\ qdw' = <<>> /\ qdx' = <<>> /\ qow' = <<>> /\ qo' = <<>>
    /\ wrote' = <<>> /\ got' = <<>> /\ disc' = <<>> /\ wdig' = <<>>
    /\ active' = <<>> /\ ctxm' = "none" /\ devMore' = FALSE /\ flags' = NoFlags
    /\ round' = 0 /\ sent70' = FALSE
    /\ last' = [ev |-> "config"]

-----------------------------------------------------------------------------
(* TO2.DeviceServiceInfo (68) leaves the device.                                                   *)
NotDevmod(kv) == kv[1] # "devmod"
IsCur(kv)     == kv[1] = CurMod
NotCur(kv)    == kv[1] # CurMod

Chk68(more, kvs) ==
    LET u == SelectSeq(kvs, NotDevmod)
        t == TakeAll(AQdw, u)
    IN << <<"m68_out_of_turn", turn = "dev" /\ ph \in {"devmod", "run"}>>,
          <<"d2o_not_fifo_on_wire", t[1]>>,                      \* carries exactly the head of what modules wrote
          <<"d2o_content_on_wire", \A i \in 1..Len(kvs) : kvs[i][4]>>,
          <<"d2o_unsent_at_round_end", more \/ ~t[1] \/ t[2] = <<>>>> >>  \* without IsMore everything written is on the wire

Ev68(more, kvs) ==
    LET u == SelectSeq(kvs, NotDevmod)
        t == TakeAll(AQdw, u)
        orph == SelectSeq(u, NotCur)
    IN /\ AllOK(Chk68(more, kvs))
       /\ qdw' = t[2]
       /\ qdx' = AsSegs(SelectSeq(u, IsCur), 0)
       /\ disc' = LET RECURSIVE F(_, _)
                      F(d, i) == IF i > Len(orph) THEN d ELSE F(Add(d, D2O(orph[i][1], orph[i][2]), orph[i][3]), i + 1)
                  IN F(disc, 1)
       /\ devMore' = more
       /\ flags' = [NoFlags EXCEPT !.orph = AsSegs(orph, 0)]
       /\ turn' = "own"
       /\ qo' = AQo /\ got' = AGot /\ wrote' = AWrote
       /\ last' = [ev |-> "m68", more |-> more, kvs |-> kvs]
       /\ UNCHANGED <<cfg, ph, dmdone, oidx, qow, wdig, active, ctxm, round, sent70>>

(* The owner hands (a fragment of) a message to its current module (HandleInfo).                    *)
ChkOwnerGot(m, g, n, off, ok, dig, val) ==
    LET t == Take(qdx, m, g, n, 0)
        s == D2O(m, g)
    IN << <<"owner_got_out_of_turn", turn = "own" /\ ~flags.produced>>,
          <<"owner_got_misrouted", t[1] \/ ~(\E i \in 1..Len(flags.orph) : flags.orph[i].g = g)>>,
          <<"owner_modules_not_sequential", m = CurMod>>,
          <<"d2o_not_fifo_at_module", t[1]>>,
          <<"d2o_offset", off = Get(got, s)>>,
          <<"d2o_content", ok>>,
          <<"d2o_more_than_sent", Get(got, s) + n <= Get(wrote, s)>>,
          <<"d2o_digest", (s \in DOMAIN wdig /\ wdig[s][1] = Get(got, s) + n /\ g # "active") => wdig[s][2] = dig>>,
          <<"active_answer", g = "active" => val = Known(m)>> >>

EvOwnerGot(m, g, n, off, ok, dig, val) ==
    /\ AllOK(ChkOwnerGot(m, g, n, off, ok, dig, val))
    /\ qdx' = Take(qdx, m, g, n, 0)[2]
    /\ got' = Add(got, D2O(m, g), n)
    /\ last' = [ev |-> "owner_got", mod |-> m, msg |-> g, n |-> n]
    /\ UNCHANGED <<cfg, ph, turn, dmdone, oidx, qdw, qow, qo, wrote, disc, wdig, active, ctxm, devMore, flags, round, sent70>>

(* The owner read the complete devmod from its session state and builds the module list.           *)
ChkOwnerDevmod(dm, mods) ==
    << <<"devmod_out_of_turn", turn = "own" /\ ~dmdone /\ ~devMore>>,
       <<"devmod_descriptors", dm = cfg.devmod>>,
       <<"devmod_module_list", mods = cfg.devnames>> >>

EvOwnerDevmod(dm, mods) ==
    /\ AllOK(ChkOwnerDevmod(dm, mods))
    /\ dmdone' = TRUE
    /\ ph' = "run"
    /\ flags' = [flags EXCEPT !.doneNow = (NOwner = 0), !.dmnow = TRUE]
    /\ last' = [ev |-> "owner_devmod"]
    /\ UNCHANGED <<cfg, turn, oidx, qdw, qdx, qow, qo, wrote, got, disc, wdig, active, ctxm, devMore, round, sent70>>

(* The current owner module writes a chunk (Producer.WriteChunk inside ProduceInfo).                *)
ChkOwnerWrote(m, g, n, off) ==
    << <<"owner_wrote_out_of_turn", turn = "own" /\ dmdone /\ ~flags.produced>>,
       <<"owner_modules_not_sequential", m = CurMod>>,
       <<"produced_while_device_has_more", ~devMore>>,
       <<"o2d_offset", off = Get(wrote, O2D(m, g))>> >>

EvOwnerWrote(m, g, n, off, dig) ==
    /\ AllOK(ChkOwnerWrote(m, g, n, off))
    /\ qow' = Append(qow, Seg(m, g, n, round))
    /\ wrote' = Add(wrote, O2D(m, g), n)
    /\ wdig' = Put(wdig, O2D(m, g), <<off + n, dig>>)
    /\ last' = [ev |-> "owner_wrote", mod |-> m, msg |-> g, n |-> n]
    /\ UNCHANGED <<cfg, ph, turn, dmdone, oidx, qdw, qdx, qo, got, disc, active, ctxm, devMore, flags, round, sent70>>

(* The current owner module reports completion; the next module becomes current.                   *)
ChkModuleDone(m) ==
    << <<"module_done_out_of_turn", turn = "own" /\ dmdone /\ ~flags.produced /\ ~flags.completed>>,
       <<"owner_modules_not_sequential", m = CurMod>>,
       <<"produced_while_device_has_more", ~devMore>> >>

EvModuleDone(m) ==
    /\ AllOK(ChkModuleDone(m))
    /\ oidx' = oidx + 1
    /\ flags' = [flags EXCEPT !.completed = TRUE, !.doneNow = (oidx + 1 = NOwner)]
    /\ last' = [ev |-> "module_done", mod |-> m]
    /\ UNCHANGED <<cfg, ph, turn, dmdone, qdw, qdx, qow, qo, wrote, got, disc, wdig, active, ctxm, devMore, round, sent70>>

(* ProduceInfo of module m returns (blockPeer, moduleDone).                                         *)
ChkProduce(m, block, done) ==
    << <<"produce_out_of_turn", turn = "own" /\ dmdone /\ ~flags.produced>>,
       <<"produced_while_device_has_more", ~devMore>>,
       <<"owner_modules_not_sequential", IF flags.completed THEN oidx >= 1 /\ m = cfg.omods[oidx] ELSE m = CurMod>>,
       <<"produce_done_flag", done = flags.completed>> >>

EvProduce(m, block, done) ==
    /\ AllOK(ChkProduce(m, block, done))
    /\ flags' = [flags EXCEPT !.produced = TRUE, !.block = block /\ ~done]
    /\ last' = [ev |-> "produce", mod |-> m, block |-> block, done |-> done]
    /\ UNCHANGED <<cfg, ph, turn, dmdone, oidx, qdw, qdx, qow, qo, wrote, got, disc, wdig, active, ctxm, devMore, round, sent70>>

(* TO2.OwnerServiceInfo (69) arrives at the device.                                                 *)
Chk69(more, done, kvs) ==
    << <<"m69_out_of_turn", turn = "own">>,
       <<"d2o_not_handed_to_module", qdx = <<>>>>,
       <<"o2d_wire_differs_from_written", AsSegs(kvs, round) = qow>>,
       <<"o2d_content_on_wire", \A i \in 1..Len(kvs) : kvs[i][4]>>,
       <<"produced_while_device_has_more", devMore => (kvs = <<>> /\ ~more /\ ~done)>>,
       <<"is_done_wrong_round", done = flags.doneNow>>,
       <<"is_more_flag", more = flags.block>> >>

Ev69(more, done, kvs) ==
    LET ends == ~more /\ ~devMore     \* a device round ends with a 68/69 pair without more-flags
    IN /\ AllOK(Chk69(more, done, kvs))
       /\ qo' = qo \o AsSegs(kvs, round)
       /\ qow' = <<>>
       /\ round' = IF ends THEN round + 1 ELSE round
       /\ ph' = IF done THEN "final" ELSE ph
       /\ turn' = "dev"
       /\ devMore' = FALSE
       /\ flags' = NoFlags
       /\ last' = [ev |-> "m69", more |-> more, done |-> done, kvs |-> kvs]
       /\ UNCHANGED <<cfg, dmdone, oidx, qdw, qdx, wrote, got, disc, wdig, active, ctxm, sent70>>

(* The device library handles "active" for a module it has (Transition is called).                  *)
ChkActivate(m, v) ==
    << <<"activate_unknown_module", Known(m)>>,
       <<"activate_without_message", Dispatchable(AQo) /\ AQo[1].m = m /\ AQo[1].g = "active">>,
       <<"activate_value", v>> >>

EvActivate(m, v) ==
    /\ AllOK(ChkActivate(m, v))
    /\ qo' = Tail(AQo)
    /\ got' = Add(AGot, O2D(m, "active"), 1)
    /\ active' = Put(active, m, v)
    /\ IF ph = "final"                                  \* DiscardAfterDone
       THEN qdw' = AQdw /\ wrote' = AWrote
       ELSE /\ qdw' = Append(AQdw, Seg(m, "active", 1, 0))
            /\ wrote' = Add(AWrote, D2O(m, "active"), 1)
    /\ ctxm' = "none"
    /\ last' = [ev |-> "activate", mod |-> m]
    /\ UNCHANGED <<cfg, ph, turn, dmdone, oidx, qdx, qow, disc, wdig, devMore, flags, round, sent70>>

(* A device module receives a message (Receive).                                                    *)
ChkDevGot(m, g, n, off, ok, dig) ==
    LET t == Take(AQo, m, g, n, round - 1)
        s == O2D(m, g)
    IN << <<"dev_got_unknown_module", Known(m)>>,
          <<"dev_got_before_activation", IsActive(m)>>,
          <<"o2d_not_fifo_at_module", t[1]>>,
          <<"o2d_offset", off = Get(got, s)>>,
          <<"o2d_content", ok>>,
          <<"o2d_more_than_sent", Get(got, s) + n <= Get(wrote, s)>>,
          <<"o2d_digest", (s \in DOMAIN wdig /\ wdig[s][1] = Get(got, s) + n) => wdig[s][2] = dig>> >>

EvDevGot(m, g, n, off, ok, dig) ==
    /\ AllOK(ChkDevGot(m, g, n, off, ok, dig))
    /\ qo' = Take(AQo, m, g, n, round - 1)[2]
    /\ got' = Add(AGot, O2D(m, g), n)
    /\ qdw' = AQdw /\ wrote' = AWrote
    /\ ctxm' = m
    /\ last' = [ev |-> "dev_got", mod |-> m, msg |-> g, n |-> n]
    /\ UNCHANGED <<cfg, ph, turn, dmdone, oidx, qdx, qow, disc, wdig, active, devMore, flags, round, sent70>>

(* The library yields to the device module that was addressed last.                                 *)
ChkYieldCall(m) == << <<"yield_to_inactive_module", Known(m) /\ IsActive(m)>> >>
EvYieldCall(m) ==
    /\ AllOK(ChkYieldCall(m))
    /\ ctxm' = m
    /\ last' = [ev |-> "yield_call", mod |-> m]
    /\ UNCHANGED <<cfg, ph, turn, dmdone, oidx, qdw, qdx, qow, qo, wrote, got, disc, wdig, active, devMore, flags, round, sent70>>

(* A device module writes n bytes of message g (inside Receive or Yield).                          *)
ChkDevWrote(m, g, n, off) ==
    << <<"dev_wrote_outside_call", ctxm = m /\ IsActive(m)>>,
       <<"d2o_offset", off = Get(wrote, D2O(m, g))>> >>

EvDevWrote(m, g, n, off, dig) ==
    /\ AllOK(ChkDevWrote(m, g, n, off))
    /\ wrote' = Add(wrote, D2O(m, g), n)
    /\ wdig' = Put(wdig, D2O(m, g), <<off + n, dig>>)
    /\ IF ph = "final"                                  \* DiscardAfterDone
       THEN qdw' = qdw /\ disc' = Add(disc, D2O(m, g), n)
       ELSE qdw' = Append(qdw, Seg(m, g, n, 0)) /\ disc' = disc
    /\ last' = [ev |-> "dev_wrote", mod |-> m, msg |-> g, n |-> n]
    /\ UNCHANGED <<cfg, ph, turn, dmdone, oidx, qdx, qow, qo, got, active, ctxm, devMore, flags, round, sent70>>

(* A device module asks for a message break.  No effect on what must be delivered.                  *)
ChkDevYield(m) == << <<"dev_yield_outside_call", ctxm = m>> >>
EvDevYield(m) ==
    /\ AllOK(ChkDevYield(m))
    /\ last' = [ev |-> "dev_yield", mod |-> m]
    /\ UNCHANGED <<cfg, ph, turn, dmdone, oidx, qdw, qdx, qow, qo, wrote, got, disc, wdig, active, ctxm, devMore, flags, round, sent70>>

(* The device sends TO2.Done (70).                                                                  *)
OnlyUndeliverable(q) == \A i \in 1..Len(q) : q[i].g # "active" /\ ~IsActive(q[i].m)
Chk70 == << <<"done_sent_before_is_done", ph = "final" /\ turn = "dev">>,
            <<"done_sent_with_undispatched_owner_info", OnlyUndeliverable(AQo)>> >>
Ev70 ==
    /\ AllOK(Chk70)
    /\ sent70' = TRUE
    /\ qo' = AQo /\ got' = AGot /\ qdw' = AQdw /\ wrote' = AWrote
    /\ last' = [ev |-> "m70"]
    /\ UNCHANGED <<cfg, ph, turn, dmdone, oidx, qdx, qow, disc, wdig, active, ctxm, devMore, flags, round>>

(* fdo.TO2 returns.                                                                                 *)
ChkResult(err) ==
    IF err
    THEN << <<"result_twice", ph \notin {"ok", "failed"}>>,
            <<"to2_failed_without_cause", Undeliverable>> >>           \* InactiveFails
    ELSE << <<"result_twice", ph \notin {"ok", "failed"}>>,
            <<"to2_ok_without_done", ph = "final" /\ sent70 /\ AllDone>>,
            <<"o2d_undelivered_at_done", OnlyUndeliverable(AQo) /\ qow = <<>>>>,
            <<"d2o_undelivered_at_done", AQdw = <<>> /\ qdx = <<>>>> >>

EvResult(err) ==
    /\ AllOK(ChkResult(err))
    /\ ph' = IF err THEN "failed" ELSE "ok"
    /\ IF err THEN UNCHANGED <<qo, disc, got, qdw, wrote>>
       ELSE /\ qo' = <<>>                           \* InactiveFails: dropped, never delivered
            /\ disc' = LET RECURSIVE F(_, _)
                           F(d, i) == IF i > Len(AQo) THEN d ELSE F(Add(d, O2D(AQo[i].m, AQo[i].g), AQo[i].n), i + 1)
                       IN F(disc, 1)
            /\ got' = AGot /\ qdw' = AQdw /\ wrote' = AWrote
    /\ last' = [ev |-> "to2_result", err |-> err]
    /\ UNCHANGED <<cfg, turn, dmdone, oidx, qdx, qow, wdig, active, ctxm, devMore, flags, round, sent70>>

-----------------------------------------------------------------------------
(* Invariants (C16).                                                                                *)
Streams == DOMAIN wrote \cup DOMAIN got

RecvLeSent == \A s \in Streams : Get(got, s) + Get(disc, s) <= Get(wrote, s)

(* What is neither received nor legitimately dropped is exactly what the queues still hold.         *)
InFlight(s) ==
    LET Q(q) == LET RECURSIVE S(_)
                    S(i) == IF i = 0 THEN 0
                            ELSE (IF s = <<"d2o", q[i].m, q[i].g>> \/ s = <<"o2d", q[i].m, q[i].g>> THEN q[i].n ELSE 0) + S(i - 1)
                IN S(Len(q))
    IN IF s[1] = "d2o" THEN Q(qdw) + Q(qdx) ELSE Q(qow) + Q(qo)

Conservation == \A s \in Streams : Get(wrote, s) = Get(got, s) + Get(disc, s) + InFlight(s)

CompleteAtDone == ph = "ok" => \A s \in Streams : Get(got, s) + Get(disc, s) = Get(wrote, s)

SequentialOwners == oidx <= NOwner /\ (oidx > 0 => dmdone)

OnlyActiveReceive ==
    \A s \in DOMAIN got : (s[1] = "o2d" /\ s[3] # "active" /\ got[s] > 0) => (Known(s[2]) /\ s[2] \in DOMAIN active)

UnknownStayInactive == \A m \in DOMAIN active : active[m] => Known(m)

DoneExactly == (ph \in {"final", "ok"}) => AllDone

EndsWithDone == ph = "ok" => sent70

TypeOK ==
    /\ ph \in {"devmod", "run", "final", "ok", "failed"}
    /\ turn \in {"dev", "own"}
    /\ oidx \in 0..NOwner

-----------------------------------------------------------------------------
(* The action names of DESIGN.md section 2 (one event each; OwnerProduce is a call that writes chunks,   *)
(* possibly reports completion and returns its explicit block flag).                                    *)
Dev68(more, kvs)                          == Ev68(more, kvs)
OwnerHandle(m, g, n, off, ok, dig, val)   == EvOwnerGot(m, g, n, off, ok, dig, val)
OwnerProduceWrite(m, g, n, off, dig)      == EvOwnerWrote(m, g, n, off, dig)
OwnerProduceComplete(m)                   == EvModuleDone(m)
OwnerProduceReturn(m, block, done)        == EvProduce(m, block, done)
Owner69(more, done, kvs)                  == Ev69(more, done, kvs)
Dev69Dispatch(m, g, n, off, ok, dig)      == EvDevGot(m, g, n, off, ok, dig)
Activate(m, v)                            == EvActivate(m, v)
Yield(m)                                  == EvYieldCall(m)
Done                                      == Ev70
=============================================================================
