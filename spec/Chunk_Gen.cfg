SPECIFICATION Spec
CONSTANTS
  MTUs = {75, 255}
  KeyLens = {1, 4, 22, 23, 24, 40}
  Rems = {0, 1, 2, 3, 4, 5, 6, 7, 8, 9, 10, 11, 12, 13, 14, 15, 16, 17, 18, 19, 20, 21, 22, 23, 24, 25, 26, 27, 28, 29, 30, 31, 32, 33, 34, 35, 36, 37, 38, 39, 40}
  MaxMsgs = 2
  TailLens = {1}
  Spans = {0}
  YieldSets = {{}}
  SplitKinds = {0}
  TailSplitKinds = {0}
  LateKinds = {0}
  EmptyFeeds = FALSE
  Interleave = FALSE
INVARIANTS TypeOK Lossless Contiguous FitsBudget SmallIsPure YieldStartsNewBatch Emit
