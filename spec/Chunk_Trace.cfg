SPECIFICATION TraceSpec
CONSTANTS
  MTUs = {}
  KeyLens = {}
  Rems = {}
  MaxMsgs = 0
  TailLens = {}
  Spans = {}
  YieldSets = {}
  SplitKinds = {}
  TailSplitKinds = {}
  LateKinds = {}
  EmptyFeeds = FALSE
  Interleave = FALSE
INVARIANTS TypeOK Lossless Contiguous FitsBudget SmallIsPure YieldStartsNewBatch
POSTCONDITION TraceAccepted
CHECK_DEADLOCK FALSE
