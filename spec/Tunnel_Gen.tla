----------------------------- MODULE Tunnel_Gen -----------------------------
(* Behaviour generation for Tunnel.tla: every run of session 1 (messages     *)
(* 65..71 in order) with at most one adversary class applied to one message, *)
(* with the design's verdict after each step.  The per-class verdict table   *)
(* of the unit-level runner and the scripts of the system-level runner are   *)
(* both read from these behaviours.                                          *)
EXTENDS Tunnel, Json

VARIABLES hist

gvars == <<vars, hist>>

GenInit == Init /\ hist = <<[ev |-> "config", cipher |-> cipher, form |-> Form(cipher)]>>

Ended == failed[1] # 0 \/ pos[1] = 72

Obs(l) ==
    CASE l.act = "enc"  -> [ev |-> "enc", type |-> l.type, dir |-> l.dir, form |-> l.form]
      [] l.act = "wire" -> [ev |-> "wire", mut |-> l.mut]
      [] l.act = "dec"  -> [ev |-> "dec", outcome |-> l.outcome, same |-> l.same, mut |-> l.mut]

GenNext ==
    /\ ~Ended
    /\ (\E ty \in 65..71 : Encrypt(1, ty)) \/ Decrypt(1) \/ \E cls \in Classes : Wire(1, cls)
    /\ hist' = Append(hist, Obs(last'))

GenSpec == GenInit /\ [][GenNext]_gvars

Emit == Ended => PrintT("BEHAVIOUR " \o ToJson(Append(hist, [ev |-> "end", failed |-> (failed[1] # 0)])))
=============================================================================
