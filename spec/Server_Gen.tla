----------------------------- MODULE Server_Gen -----------------------------
(* Behaviour generation: random walks of Server.tla (tlc -simulate) with a  *)
(* history of the actions taken, printed as JSON once the walk is complete. *)
(* Honest protocol progress is weighted up so that walks reach the deep     *)
(* states of TO2 before the adversary strikes.                              *)
EXTENDS Server, Json, Randomization

CONSTANT Mutants      \* BOOLEAN: include C10 mutants in the generated walks
VARIABLE hist

GenInit == Init /\ hist = <<>>

Progress ==
    \/ \E s \in Slots, p \in Protos, d \in Devs \cup {"new"} : Start(s, p, d)
    \/ \E s \in Slots : Honest(s)

Adversary ==
    \/ \E s \in Slots, a \in Forge64 \cup Forge22 \cup Forge32 : Mutated(s, a)
    \/ \E s \in Slots, t \in ReqTypes, tok \in Toks, b \in Bodies : Inject(s, t, tok, b)
    \/ \E s \in Slots, t \in PlainRespTypes, tok \in Toks : InjectRespType(s, t, tok)
    \/ (Mutants /\ \E s \in Slots, t \in ReqTypes : Mutant(s, t))
    \/ (Mutants /\ \E s \in Slots, t \in StartTypes : MutantStart(s, t))
    \/ (Mutants /\ \E s \in Slots : MutantError(s))
    \/ (Mutants /\ \E s \in Slots, t \in ReqTypes \cup StartTypes : MutantHttp(s, t))
    \/ \E s \in Slots, t \in StartTypes, b \in {"replay", "garbage"} : OrphanStart(s, t, b)
    \/ \E s \in Slots, tok \in Toks : ErrorMsg(s, tok)
    \/ \E d \in Devs : Expire(d)
    \/ Restart

Step == IF RandomElement(1..10) <= 6 /\ ENABLED Progress THEN Progress ELSE (Progress \/ Adversary)

GenNext ==
    /\ nreq < MaxReq
    /\ Step
    /\ hist' = Append(hist, last')

GenSpec == GenInit /\ [][GenNext]_<<vars, hist>>

Emit == (nreq = MaxReq) => PrintT("BEHAVIOUR " \o ToJson(hist))
=============================================================================
