SPECIFICATION Spec
CONSTANTS
  ChainLens = {2}
  MaxAtoms = 2
INVARIANTS Sent64Only CompleteOnly FailGivesNoCred MustFail HonestCompletes
PROPERTIES Terminates
