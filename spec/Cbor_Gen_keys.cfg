\* behaviours: maps with two pairs over keys of every head size
SPECIFICATION GenSpec
CONSTANTS
  Ints <- KeyInts
  Strs <- KeyStrs
  Tags <- NoTags
  Simples <- NoSimples
  MaxStack = 4
  MaxNodes = 5
  MaxDepth = 2
  MaxArr = 0
  MaxPairs = 2
  AllowWrap = FALSE
INVARIANTS Theorems Emit
