SPECIFICATION Spec
CONSTANTS
  MaxSteps = 6
  MaxCuts = 1
  Ext = TRUE
  AIOs = {TRUE, FALSE}
INVARIANTS AfterDI AfterTO2 FailedRunNoCred CanContinue AIOReady StaleBlobRefused RegisteredByOwner HeldNotServed
PROPERTIES ReuseChangesNothing Atomic CredOnlyAfterDone2 LocateOnlyLive RestoreGivesBack FailedResaleKeepsVoucher
