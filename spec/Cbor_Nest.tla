------------------------------ MODULE Cbor_Nest ------------------------------
(* C12, nested-encoded items.  Many wire types of go-fdo carry a CBOR item   *)
(* INSIDE a byte string (CDDL "bstr .cbor T"): cbor.Bstr[T], cbor.ByteWrap[T],*)
(* the serialized protected header of every COSE structure, the voucher      *)
(* header inside a voucher, to0d inside TO0.OwnerSign, the payload of a COSE  *)
(* structure (voucher entries, to1d, EAT, ovhProof) ...  "Exact" decoding     *)
(* (Cbor.tla, Allowed / WrappedExact) applies at every such position: the     *)
(* byte string is a whole-buffer decode of ONE item; a target that accepts an *)
(* input in which some nested position holds an item followed by more bytes,  *)
(* a truncated item or nothing has succeeded with bytes left over.            *)
(*                                                                            *)
(* A *schema* says where a decode target has nested positions:                *)
(*   any            no nested position below this item                        *)
(*   wrap(s)        a byte string here holds exactly one item, which obeys s  *)
(*   wrap0(s)       the same, or the empty byte string (COSE protected header)*)
(*   arr(<<s..>>)   an array whose j-th element obeys s[j] (further: any)     *)
(*   list(s)        an array all of whose elements obey s                     *)
(*   tag(s)         a tag whose content obeys s                               *)
(* Where the item found is of another major type than the schema expects the  *)
(* schema says nothing (the target decides by type; null is accepted by many).*)
(*                                                                            *)
(* NestOK(s, b, i) is the verdict for the well-formed item at b[i]; the       *)
(* outcome rule for a target T with schema s is                               *)
(*     Ok  =>  Allowed(b, ..)  /\  NestOK(s, b, 1)                            *)
(* which generalises the bstr .cbor rule of Cbor_Tab (W) to every depth.      *)
(*                                                                            *)
(* TLC enumerates honest instances of the wire types (built in the data model *)
(* of Cbor.tla with Wrapped nodes) x every nested position x the alphabet of  *)
(* inner mismatches (trailing complete item / several / truncated head /      *)
(* break / reserved, the item twice, inner item cut by one byte, cut to its   *)
(* head, emptied), and the same alterations of opaque byte strings (where the *)
(* specification does NOT ask for a refusal), and prints for every case the   *)
(* bytes, their class and the verdict under every schema.  harness/cborx runs *)
(* each case against every decode target; its own schema interpreter (used   *)
(* for the seeded inputs beyond this table) must agree on every line.         *)
EXTENDS Cbor_MC, Json

VARIABLE q     \* [kind |-> "start"], an instance [kind |-> "inst", i] or a case [kind, i, path, m]

-----------------------------------------------------------------------------
(* Schemas *)
SAny       == [k |-> "any",   of |-> <<>>]
SWrap(s)   == [k |-> "wrap",  of |-> <<s>>]
SWrap0(s)  == [k |-> "wrap0", of |-> <<s>>]
SArr(ss)   == [k |-> "arr",   of |-> ss]
SList(s)   == [k |-> "list",  of |-> <<s>>]
STag(s)    == [k |-> "tag",   of |-> <<s>>]

RECURSIVE NestOK(_, _, _), NestKids(_, _, _, _, _)

\* elements j..n of an array; the j-th one starts at position p
NestKids(s, b, p, j, n) ==
    IF j > n THEN TRUE
    ELSE LET cs == IF s.k = "list" THEN s.of[1] ELSE IF j <= Len(s.of) THEN s.of[j] ELSE SAny IN
         NestOK(cs, b, p) /\ NestKids(s, b, Item(b, p).next, j + 1, n)

\* b[i] starts a well-formed item
NestOK(s, b, i) ==
    LET major == b[i] \div 32
        ai    == b[i] % 32
        w     == Width(ai)
        p     == i + 1 + w
        n     == Capped(Arg(b, i, ai, w), Len(b))     \* fits: the item is well formed
    IN
    CASE s.k = "any" -> TRUE
      [] s.k \in {"wrap", "wrap0"} ->
            IF major # 2 THEN TRUE
            ELSE IF ai = 31 THEN FALSE                  \* as WrappedExact: a definite byte string
            ELSE IF n = 0 THEN s.k = "wrap0"
            ELSE LET c == SubSeq(b, p, p + n - 1) IN
                 Class(c) # "bad" /\ ItemLen(c) = Len(c) /\ NestOK(s.of[1], c, 1)
      [] s.k = "tag" -> IF major # 6 THEN TRUE ELSE NestOK(s.of[1], b, p)
      [] s.k \in {"arr", "list"} -> IF major # 4 \/ ai = 31 THEN TRUE ELSE NestKids(s, b, p, 1, n)

\* 1: a target with schema s may accept b (if b is an item at all: see Class); 0: it must refuse
NestVerdict(s, b) == IF Class(b) = "bad" THEN 1 ELSE IF NestOK(s, b, 1) THEN 1 ELSE 0

-----------------------------------------------------------------------------
(* The schemas of the decode targets (names as in harness/cborx Targets()). *)

CoseS       == SArr(<<SWrap0(SAny)>>)                                  \* [protected, unprotected, opaque bstr, ...]
CosePS(ps)  == SArr(<<SWrap0(SAny), SAny, SWrap(ps)>>)                 \* typed payload: bstr .cbor P
EntryPayS   == SArr(<<SAny, SAny, SWrap(SAny), SAny>>)                 \* [prevHash, hdrHash, bstr .cbor extra / null, key]
EntryS      == STag(CosePS(EntryPayS))
VoucherS    == SArr(<<SAny, SWrap(SAny), SAny, SAny, SList(EntryS)>>)  \* [ver, bstr .cbor OVHeader, hmac, chain, entries]
OvhProofS   == SArr(<<SWrap(SAny)>>)                                   \* [bstr .cbor OVHeader, ...]

SchemaDefs == <<
    [name |-> "any",          s |-> SAny],
    [name |-> "wrap",         s |-> SWrap(SAny)],
    [name |-> "wrap-field1",  s |-> SArr(<<SWrap(SAny)>>)],
    [name |-> "cose",         s |-> CoseS],
    [name |-> "cose-tag",     s |-> STag(CoseS)],
    [name |-> "cose-p",       s |-> CosePS(SAny)],
    [name |-> "cose-p-tag",   s |-> STag(CosePS(SAny))],
    [name |-> "entrypayload", s |-> EntryPayS],
    [name |-> "entry",        s |-> EntryS],
    [name |-> "voucher",      s |-> VoucherS],
    [name |-> "ownersign",    s |-> SArr(<<SWrap(SArr(<<VoucherS>>)), STag(CosePS(SAny))>>)],
    [name |-> "proveovhdr",   s |-> STag(CosePS(OvhProofS))],
    [name |-> "ovnextentry",  s |-> SArr(<<SAny, EntryS>>)],
    [name |-> "mac0-etm",     s |-> CosePS(CoseS)]
>>

SchemaIndex(nm) == CHOOSE k \in 1..Len(SchemaDefs) : SchemaDefs[k].name = nm

T(t, s) == [t |-> t, s |-> s]
TargetSchemas == <<
    T("any", "any"), T("cbor.RawBytes", "any"), T("int64", "any"), T("uint8", "any"), T("[]byte", "any"), T("string", "any"),
    T("bool", "any"), T("*int64", "any"), T("[]any", "any"), T("[]int64", "any"), T("[][]byte", "any"), T("[4]uint16", "any"),
    T("[16]byte", "any"), T("map[any]any", "any"), T("map[int64]any", "any"), T("map[string][]byte", "any"),
    T("struct{int64,[]byte,string}", "any"), T("struct{uint8,[]byte omitempty}", "any"), T("struct{any,RawBytes,*struct,[]struct}", "any"),
    T("cbor.Bstr[int64]", "wrap"), T("cbor.Bstr[cbor.RawBytes]", "wrap"), T("cbor.Bstr[[]any]", "wrap"), T("cbor.Bstr[any]", "wrap"),
    T("cbor.ByteWrap[int64]", "wrap"), T("cbor.ByteWrap[cbor.RawBytes]", "wrap"),
    T("cbor.ByteWrap[[]byte]", "any"),                                  \* ByteWrap of bytes is the byte string itself
    T("struct{cbor.Bstr[int64],int64}", "wrap-field1"),
    T("cbor.Tag[any]", "any"), T("cbor.Tag[cbor.RawBytes]", "any"), T("cbor.Tag[int64]", "any"), T("cbor.Timestamp", "any"),
    T("cbor.X509Certificate", "any"), T("cbor.X509CertificateRequest", "any"), T("[]*cbor.X509Certificate", "any"),
    T("cose.Sign1[[]byte]", "cose"), T("cose.Sign1[int64]", "cose-p"), T("cose.Sign1Tag[[]byte]", "cose-tag"),
    T("cose.Mac0[[]byte]", "cose"), T("cose.Mac0Tag[[]byte]", "cose-tag"),
    T("cose.Encrypt0[[]byte]", "cose"), T("cose.Encrypt0Tag[[]byte]", "cose-tag"),
    T("cose.Key", "any"), T("cose.Label", "any"), T("cose.HeaderMap", "any"),
    T("fdo.Voucher", "voucher"), T("fdo.VoucherHeader", "any"), T("fdo.VoucherEntryPayload", "entrypayload"),
    T("fdo.DeviceCredential", "any"), T("blob.DeviceCredential", "any"), T("protocol.PublicKey", "any"), T("protocol.Hash", "any"),
    T("protocol.To1d", "any"), T("protocol.ErrorMessage", "any"), T("[][]protocol.RvInstruction", "any"),
    T("serviceinfo.KV", "any"), T("[]*serviceinfo.KV", "any"), T("serviceinfo.DevmodModulesChunk", "any"),
    \* COSE structures with typed payloads and the messages that nest them (unexported message types
    \* are re-declared field by field in harness/cborx from the library's generic building blocks)
    T("cose.Sign1[cbor.RawBytes]", "cose-p"), T("cose.Sign1Tag[cbor.RawBytes]", "cose-p-tag"),
    T("cose.Sign1[protocol.To1d]", "cose-p"), T("cose.Sign1Tag[protocol.To1d]", "cose-p-tag"),
    T("cose.Sign1Tag[fdo.VoucherEntryPayload]", "entry"),
    T("cose.Mac0[cose.Encrypt0[cbor.RawBytes]]", "mac0-etm"),
    T("msg:DI.AppStart", "wrap-field1"), T("msg:DI.SetCredentials", "wrap-field1"),
    T("msg:TO0.OwnerSign", "ownersign"), T("msg:TO2.ProveOVHdr", "proveovhdr"), T("msg:TO2.OVNextEntry", "ovnextentry")
>>

-----------------------------------------------------------------------------
(* Honest instances, in the data model of Cbor.tla *)

U(n)  == UInt(IF n = 0 THEN <<>> ELSE <<n>>)            \* 0..255
B16   == BStr([i \in 1..16 |-> i])
HashV == Arr(<<NInt(<<15>>), BStr(<<1, 2, 3>>)>>)          \* [-16, bytes]
KeyV  == Arr(<<U(10), U(1), BStr(<<4, 5>>)>>)              \* [type, encoding, body]
OvhV  == Arr(<<U(101), B16, Arr(<<>>), TStr(<<100>>), KeyV, Null>>)
To1dV == Arr(<<Arr(<<>>), HashV>>)
EmptyMap == MkMap(<<>>)
ProtV == Wrapped(MkMap(<<U(1), NInt(<<6>>)>>))             \* bstr .cbor {1: -7}
CoseV(third, last) == Arr(<<ProtV, EmptyMap, third, last>>)
SigV  == BStr(<<170, 187>>)
EntryPayV == Arr(<<HashV, HashV, Wrapped(MkMap(<<U(1), BStr(<<9>>)>>)), KeyV>>)
EntryV    == Tagged(<<18>>, CoseV(Wrapped(EntryPayV), SigV))
VoucherV  == Arr(<<U(101), Wrapped(OvhV), HashV, Null, Arr(<<EntryV>>)>>)
To1dTagV  == Tagged(<<18>>, CoseV(Wrapped(To1dV), SigV))
OvhProofV == Arr(<<Wrapped(OvhV), U(1), HashV, B16, Arr(<<NInt(<<6>>), BStr(<<>>)>>), BStr(<<7, 7>>), HashV, U(0)>>)
Enc0V     == Arr(<<ProtV, EmptyMap, BStr(<<221, 238>>)>>)

I(name, v, for) == [name |-> name, v |-> v, for |-> for]
Insts == <<
    I("bstr-int", Wrapped(U(5)), <<"cbor.Bstr[int64]", "cbor.Bstr[cbor.RawBytes]", "cbor.Bstr[any]", "cbor.ByteWrap[int64]", "cbor.ByteWrap[cbor.RawBytes]">>),
    I("bstr-arr", Wrapped(Arr(<<U(1), TStr(<<97>>)>>)), <<"cbor.Bstr[[]any]", "cbor.Bstr[cbor.RawBytes]", "cbor.Bstr[any]", "cbor.ByteWrap[cbor.RawBytes]">>),
    I("bstr-in-bstr", Wrapped(Wrapped(U(5))), <<"cbor.Bstr[cbor.RawBytes]", "cbor.Bstr[any]">>),
    I("wrapstruct", Arr(<<Wrapped(U(5)), U(7)>>), <<"struct{cbor.Bstr[int64],int64}">>),
    I("cose4-bytes", CoseV(BStr(<<1, 2>>), SigV), <<"cose.Sign1[[]byte]", "cose.Mac0[[]byte]">>),
    I("cose4-int", CoseV(Wrapped(U(5)), SigV), <<"cose.Sign1[int64]", "cose.Sign1[cbor.RawBytes]", "cose.Sign1[[]byte]", "cose.Mac0[[]byte]">>),
    I("cose4-emptyprot", Arr(<<BStr(<<>>), EmptyMap, BStr(<<1, 2>>), SigV>>), <<"cose.Sign1[[]byte]", "cose.Mac0[[]byte]">>),
    I("sign1tag-bytes", Tagged(<<18>>, CoseV(BStr(<<1, 2>>), SigV)), <<"cose.Sign1Tag[[]byte]">>),
    I("mac0tag-bytes", Tagged(<<17>>, CoseV(BStr(<<1, 2>>), SigV)), <<"cose.Mac0Tag[[]byte]">>),
    I("encrypt0", Enc0V, <<"cose.Encrypt0[[]byte]">>),
    I("encrypt0tag", Tagged(<<16>>, Enc0V), <<"cose.Encrypt0Tag[[]byte]">>),
    I("entrypayload", EntryPayV, <<"fdo.VoucherEntryPayload">>),
    I("entry", EntryV, <<"cose.Sign1Tag[fdo.VoucherEntryPayload]", "cose.Sign1Tag[cbor.RawBytes]">>),
    I("voucher", VoucherV, <<"fdo.Voucher">>),
    I("to1d-sign1tag", To1dTagV, <<"cose.Sign1Tag[protocol.To1d]", "cose.Sign1Tag[cbor.RawBytes]">>),
    I("to1d-sign1", CoseV(Wrapped(To1dV), SigV), <<"cose.Sign1[protocol.To1d]", "cose.Sign1[cbor.RawBytes]">>),
    I("eat-sign1tag", Tagged(<<18>>, CoseV(Wrapped(MkMap(<<U(10), B16>>)), SigV)), <<"cose.Sign1Tag[cbor.RawBytes]">>),
    I("appstart", Arr(<<Wrapped(Arr(<<U(10), U(1), TStr(<<115>>)>>))>>), <<"msg:DI.AppStart">>),
    I("setcredentials", Arr(<<Wrapped(OvhV)>>), <<"msg:DI.SetCredentials", "msg:DI.AppStart">>),
    I("ownersign", Arr(<<Wrapped(Arr(<<VoucherV, U(60), B16>>)), To1dTagV>>), <<"msg:TO0.OwnerSign">>),
    I("proveovhdr", Tagged(<<18>>, CoseV(Wrapped(OvhProofV), SigV)), <<"msg:TO2.ProveOVHdr", "cose.Sign1Tag[cbor.RawBytes]">>),
    I("ovnextentry", Arr(<<U(0), EntryV>>), <<"msg:TO2.OVNextEntry">>),
    I("mac0-etm", CoseV(Wrapped(Enc0V), BStr(<<204>>)), <<"cose.Mac0[cose.Encrypt0[cbor.RawBytes]]", "cose.Mac0[[]byte]">>)
>>

-----------------------------------------------------------------------------
(* Inner mismatches *)

M(name, k, j) == [name |-> name, k |-> k, j |-> j]
Muts == <<
    M("trailing-uint", "trail", <<0>>),
    M("trailing-empty-map", "trail", <<160>>),
    M("trailing-null", "trail", <<246>>),
    M("trailing-truncated-head", "trail", <<24>>),
    M("trailing-break", "trail", <<255>>),
    M("trailing-reserved", "trail", <<28>>),
    M("trailing-items", "trail", <<1, 2, 3>>),
    M("trailing-truncated-array", "trail", <<130, 1>>),
    M("item-twice", "double", <<>>),
    M("cut-last-byte", "cut1", <<>>),
    M("cut-to-first-byte", "head1", <<>>),
    M("emptied", "empty", <<>>)
>>
OpaqueMuts == {1, 7, 10}      \* what is also done to opaque byte strings

MutBytes(e, m) ==
    CASE m.k = "trail"  -> e \o m.j
      [] m.k = "double" -> e \o e
      [] m.k = "cut1"   -> SubSeq(e, 1, Len(e) - 1)
      [] m.k = "head1"  -> SubSeq(e, 1, 1)
      [] m.k = "empty"  -> <<>>

RECURSIVE PathsOf(_, _), NodeAt(_, _), PutAt(_, _, _)
PathsOf(v, kind) ==
    (IF v.t = kind THEN {<<>>} ELSE {}) \cup
    UNION {{<<j>> \o pp : pp \in PathsOf(v.kids[j], kind)} : j \in 1..Len(v.kids)}
NodeAt(v, path) == IF path = <<>> THEN v ELSE NodeAt(v.kids[path[1]], Tail(path))
PutAt(v, path, x) == IF path = <<>> THEN x ELSE [v EXCEPT !.kids[path[1]] = PutAt(v.kids[path[1]], Tail(path), x)]

CaseBytes(c) ==
    LET v == Insts[c.i].v IN
    IF c.kind = "control" THEN Enc(v)
    ELSE LET node == NodeAt(v, c.path)
             e    == IF node.t = "wrap" THEN Enc(node.kids[1]) ELSE node.b
         IN  Enc(PutAt(v, c.path, BStr(MutBytes(e, Muts[c.m]))))

-----------------------------------------------------------------------------
NestInit == q = [kind |-> "start", i |-> 0, path |-> <<>>, m |-> 0] /\ stack = <<>>

Control(i) == q' = [kind |-> "control", i |-> i, path |-> <<>>, m |-> 0]
Inner(i)   == \E path \in PathsOf(Insts[i].v, "wrap"), m \in 1..Len(Muts) :
                  q' = [kind |-> "inner", i |-> i, path |-> path, m |-> m]
Opaque(i)  == \E path \in PathsOf(Insts[i].v, "bstr"), m \in OpaqueMuts :
                  q' = [kind |-> "opaque", i |-> i, path |-> path, m |-> m]

\* two levels (instance, then case) so that TLC's workers share the instances
Pick(i) == q' = [kind |-> "inst", i |-> i, path |-> <<>>, m |-> 0]
NestNext == /\ \/ q.kind = "start" /\ \E i \in 1..Len(Insts) : Pick(i)
               \/ q.kind = "inst" /\ (Control(q.i) \/ Inner(q.i) \/ Opaque(q.i))
            /\ UNCHANGED stack

NestSpec == NestInit /\ [][NestNext]_<<q, stack>>

Code(b) ==
    LET c == Class(b) IN
    IF c = "bad" THEN 0
    ELSE (CASE c = "def" -> 100000 [] c = "indef" -> 200000 [] c = "len" -> 300000) + ItemLen(b)
W(b) == IF WrappedExact(b) THEN 1 ELSE 0
Vec(b) == [k \in 1..Len(SchemaDefs) |-> NestVerdict(SchemaDefs[k].s, b)]

NestEmit ==
    IF q.kind = "start"
    THEN PrintT("BEHAVIOUR " \o ToJson([nestschemas |-> SchemaDefs, targets |-> TargetSchemas]))
    ELSE IF q.kind = "inst" THEN TRUE
    ELSE LET b == CaseBytes(q) IN
         PrintT("BEHAVIOUR " \o ToJson([nest |-> Insts[q.i].name, for |-> Insts[q.i].for, kind |-> q.kind, path |-> q.path,
                                          mut |-> IF q.m = 0 THEN "none" ELSE Muts[q.m].name,
                                          bytes |-> b, code |-> Code(b), w |-> W(b), v |-> Vec(b)]))

-----------------------------------------------------------------------------
(* Theorems about the table itself *)

SchemaOf(t) == LET k == CHOOSE k \in 1..Len(TargetSchemas) : TargetSchemas[k].t = t IN SchemaDefs[SchemaIndex(TargetSchemas[k].s)].s

\* an inner mismatch leaves the enclosing item well formed and exact: only the nested item is inexact
OuterStaysExact == q.kind \notin {"start", "inst"} => LET b == CaseBytes(q) IN Class(b) = "def" /\ ItemLen(b) = Len(b)

\* honest instances, and instances with altered opaque byte strings, are acceptable to the targets they are built for
\* (the empty protected header of "cose4-emptyprot" is a byte string leaf of the data model but a wrap0 position)
HonestAcceptable ==
    (q.kind = "control" \/ (q.kind = "opaque" /\ Insts[q.i].name # "cose4-emptyprot")) =>
        LET b == CaseBytes(q) IN \A k \in 1..Len(Insts[q.i].for) : NestVerdict(SchemaOf(Insts[q.i].for[k]), b) = 1

\* every inner mismatch but the emptied protected header must be refused by the first target the instance is built for,
\* unless the position is not a nested position of that target ("bstr-in-bstr": the inner byte string is opaque;
\* "cose4-int" is listed for targets that read the payload as bytes after its first one)
InnerMismatchRefused ==
    (q.kind = "inner" /\ Insts[q.i].name # "bstr-in-bstr") =>
        LET b == CaseBytes(q) e == Enc(NodeAt(Insts[q.i].v, q.path).kids[1]) mb == MutBytes(e, Muts[q.m]) IN
        (NestVerdict(SchemaOf(Insts[q.i].for[1]), b) = 1) <=>
            (\/ mb = e                                                      \* cutting a one-byte item to its first byte
             \/ (mb = <<>> /\ NodeAt(Insts[q.i].v, q.path) = ProtV))       \* wrap0: the emptied protected header

\* at the top, the schema wrap(any) is the bstr .cbor rule of Cbor.tla
WrapIsWrappedExact ==
    q.kind \notin {"start", "inst"} => LET b == CaseBytes(q) IN (b[1] \div 32 = 2) => (NestVerdict(SWrap(SAny), b) = W(b))

\* every target is mapped to a defined schema, once
TargetsWellDefined ==
    /\ \A k \in 1..Len(TargetSchemas) : \E j \in 1..Len(SchemaDefs) : SchemaDefs[j].name = TargetSchemas[k].s
    /\ \A k, j \in 1..Len(TargetSchemas) : TargetSchemas[k].t = TargetSchemas[j].t => k = j
    /\ \A i \in 1..Len(Insts) : \A k \in 1..Len(Insts[i].for) : \E j \in 1..Len(TargetSchemas) : TargetSchemas[j].t = Insts[i].for[k]
=============================================================================
