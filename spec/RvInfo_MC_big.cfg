\* thorough: every list up to length 3 over the full alphabet (16 variables x 6 classes x all table values)
SPECIFICATION Spec
CONSTANTS
  MaxLen = 3
  Classes = {"valid", "boundary", "malformed", "wrongtype", "empty", "range"}
  Full = TRUE
INVARIANTS TypeOK OrderIndependent Commutes RoleFilter Defaults MalformedIgnored PortFromTables
