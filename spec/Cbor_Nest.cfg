\* C12: nested-encoded items: honest instances of the wire types x nested positions x inner mismatches; verdict under every schema
SPECIFICATION NestSpec
CONSTANTS
  Ints <- DeepInts
  Strs <- DeepStrs
  Tags <- DeepTags
  Simples <- NoSimples
  MaxStack = 1
  MaxNodes = 1
  MaxDepth = 1
  MaxArr = 0
  MaxPairs = 0
  AllowWrap = FALSE
INVARIANTS NestEmit OuterStaysExact HonestAcceptable InnerMismatchRefused WrapIsWrappedExact
