SPECIFICATION TraceSpec
POSTCONDITION TraceAccepted
