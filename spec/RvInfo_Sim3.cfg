\* simulation: lists of length 3 (tlc -simulate), full alphabet
SPECIFICATION SimSpec
CONSTANTS
  MaxLen = 3
  Classes = {"valid", "boundary", "malformed", "wrongtype", "empty", "range"}
  Full = TRUE
INVARIANTS GenEmit
