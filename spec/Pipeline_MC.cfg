SPECIFICATION Spec
CONSTANTS
  Ks = {0, 1, 2}
  ScriptIds = {1, 2, 3, 4, 5, 6, 7, 8, 9, 10}
  Want = 2
  Cancels = {FALSE}
  Lates = {FALSE, TRUE}
  ClosingCheck = FALSE
  Stops = {FALSE}
INVARIANTS TypeOK NoPanic Complete
PROPERTIES Termination
