\* behaviours: strings of 255/256 bytes
SPECIFICATION GenSpec
CONSTANTS
  Ints <- LongInts
  Strs <- LongStrs
  Tags <- DeepTags
  Simples <- NoSimples
  MaxStack = 2
  MaxNodes = 3
  MaxDepth = 2
  MaxArr = 2
  MaxPairs = 1
  AllowWrap = TRUE
INVARIANTS Theorems Emit
