SPECIFICATION MCSpec
CONSTANTS
  OModSets <- MC_OModSets
  DModSets <- MC_DModSets
  Msgs = {"p"}
  MaxN = 2
  MaxW = 2
  MaxX = 6
INVARIANTS TypeOK RecvLeSent Conservation CompleteAtDone SequentialOwners OnlyActiveReceive UnknownStayInactive DoneExactly EndsWithDone
