SPECIFICATION Spec
CONSTANTS
  MaxSteps = 7
  MaxCuts = 2
  Ext = FALSE
  AIOs = {FALSE}
INVARIANTS AfterDI AfterTO2 FailedRunNoCred CanContinue
PROPERTIES ReuseChangesNothing Atomic CredOnlyAfterDone2
