\* quick: every list up to length 3 over 16 variables x {valid, malformed} (reduced table values), both
\* roles, every order. The full class / table-value alphabet is covered up to length 2 by
\* RvInfo_Gen.cfg (which checks the same invariants) and up to length 3 by RvInfo_MC_big.cfg (thorough).
SPECIFICATION Spec
CONSTANTS
  MaxLen = 3
  Classes = {"valid", "malformed"}
  Full = FALSE
INVARIANTS TypeOK OrderIndependent Commutes RoleFilter OwnRoleNeutral Defaults MalformedIgnored PortFromTables
