SPECIFICATION Spec
CONSTANTS
  MaxLen = 2
  MaxOps = 2
  Isolating = FALSE
INVARIANTS Emit
