------------------------------ MODULE Kex_Gen ------------------------------
(* Behaviour generation for Kex.tla: every script the Go runner replays on  *)
(* real kex sessions.  One slot; the protocol steps in order, an optional   *)
(* Persist;Restore pair after each of A's steps and after B's step, one     *)
(* degenerate parameter (to A or to B) or a second SetParameter.  Each      *)
(* history element carries the projection of the state the runner compares  *)
(* after the step.                                                          *)
EXTENDS Kex, Json

VARIABLES hist, phase, nsecond

gvars == <<vars, hist, phase, nsecond>>

Proj(l, a, b) ==
    [act |-> l.act, arg |-> l.arg, res |-> l.res,
     ast |-> a.st, akeys |-> HasKeys(a), bst |-> b.st, bkeys |-> HasKeys(b),
     agree |-> (HasKeys(a) /\ HasKeys(b) /\ a.sek = b.sek /\ a.svk = b.svk),
     keylen |-> KeyLen(cipher), mackeylen |-> MacKeyLen(cipher)]

GenInit ==
    /\ Init
    /\ hist = <<[act |-> "Config", suite |-> suite, cipher |-> cipher, prf |-> Prf(cipher), lbits |-> LBits(cipher)]>>
    /\ phase = "run" /\ nsecond = 0

AStep(l) == l.act \in {"ParamA", "ParamB", "SetParam", "SecondSetParam"}

Step ==
    \/ ParamA(1, 1)
    \/ A[1].st = "param" /\ NewB(1)
    \/ A[1].st = "param" /\ \E cls \in DegToB(suite) : DegenerateToB(1, cls)
    \/ ParamB(1, 2)
    \/ SetParam(1)
    \/ B[1].st = "new" /\ \E cls \in DegToA(suite) : DegenerateToA(1, cls)
    \/ nsecond = 0 /\ B[1].st = "done" /\ \E cls \in SecondClasses : SecondSetParam(1, cls)

Finished == A[1].st \in {"done", "err"} \/ B[1].st = "err" \/ last.res = "either"

GenNext ==
    \/ /\ phase = "run" /\ last.res # "either" /\ A[1].st # "err" /\ B[1].st # "err"
       /\ Step
       /\ hist' = Append(hist, Proj(last', A'[1], B'[1]))
       /\ nsecond' = IF last'.act = "SecondSetParam" THEN 1 ELSE nsecond
       /\ phase' = "run"
    \/ /\ phase = "run"
       /\ (AStep(last) /\ last.res = "ok") \/ last.act = "SecondSetParam"
       /\ Persist(1)
       /\ hist' = Append(hist, Proj(last', A'[1], B'[1]))
       /\ phase' = "restore" /\ UNCHANGED nsecond
    \/ /\ phase = "restore"
       /\ Restore(1)
       /\ hist' = Append(hist, Proj(last', A'[1], B'[1]))
       /\ phase' = "run" /\ UNCHANGED nsecond
    \/ /\ phase = "run" /\ Finished
       /\ phase' = "end"
       /\ UNCHANGED <<vars, hist, nsecond>>

GenSpec == GenInit /\ [][GenNext]_gvars

Emit == (phase = "end") => PrintT("BEHAVIOUR " \o ToJson(hist))
=============================================================================
