------------------------------ MODULE Voucher ------------------------------
(***************************************************************************)
(* Ownership vouchers as symbolic terms: what each HMAC, hash and          *)
(* signature was computed over is kept as a snapshot, and the verifiers    *)
(* of voucher.go compare snapshots with the current content exactly where  *)
(* the code re-encodes and compares.  The machine builds an honest voucher *)
(* (DICreate, Extend) and then lets an adversary alter, reorder, splice    *)
(* and - in the isolating variant - repair it with the true secrets.       *)
(*                                                                         *)
(* C04: AllVerify <=> no bound part differs (for an adversary without      *)
(* secrets); OwnerKey = key of the last extension; Extend only by the      *)
(* current owner with a key of the manufacturer key's type.                *)
(***************************************************************************)
EXTENDS Naturals, Sequences, FiniteSets, TLC

CONSTANTS
    MaxLen,       \* maximal number of extensions of the honest voucher
    MaxOps,       \* maximal number of adversary steps
    Isolating     \* BOOLEAN: the adversary may repair with true secrets (Remac, Repair)

VARIABLES v,      \* the voucher under attack
          ops,    \* adversary steps so far (sequence of records)
          secrets \* TRUE once a repair step used a secret

vars == <<v, ops, secrets>>

Owners == <<"o1", "o2", "o3">>            \* o_i receives extension i
KeyOfType == [mfg |-> "A", o1 |-> "A", o2 |-> "A", o3 |-> "A", stranger |-> "A", otherType |-> "B"]

UnknownHdr == [hver |-> "?", guid |-> "?", rv |-> "?", info |-> "?", mfgKey |-> "?", cchash |-> <<"?">>]
HonestHdr(g) == [hver |-> "101", guid |-> g, rv |-> "rv", info |-> "info", mfgKey |-> "mfg", cchash |-> <<"chain", g>>]

(* entry e: signed by sigBy over sigOver; payload (prev, hh, extra, pub); protected alg; unprotected map *)
Content(e) == <<e.prot, e.prev, e.hh, e.extra, e.pub>>
EntryObj(e) == <<e.prot, e.uhdr, e.prev, e.hh, e.extra, e.pub, e.sigBy, e.sigOver, e.sigId>>   \* what the next entry hashes (re-encoded tagged entry)

Signer(w, i) == IF i = 1 THEN w.hdr.mfgKey ELSE w.ents[i - 1].pub
PrevObj(w, i) == IF i = 1 THEN <<"hdr", w.hdr, w.hmac>> ELSE <<"ent", EntryObj(w.ents[i - 1])>>
HdrInfo(w) == <<w.hdr.guid, w.hdr.info>>

ExtendBy(w, signer, next) ==
    LET i == Len(w.ents) + 1
        e0 == [prot |-> "alg", uhdr |-> "u", prev |-> PrevObj(w, i), hh |-> HdrInfo(w), extra |-> "extra", pub |-> next,
               sigBy |-> signer, sigOver |-> <<>>, sigId |-> "orig"]
    IN [w EXCEPT !.ents = Append(w.ents, [e0 EXCEPT !.sigOver = Content(e0)])]

Honest(g, n) ==
    LET base == [over |-> "101", hdr |-> HonestHdr(g),
                 hmac |-> [alg |-> "hmac", calg |-> "hmac", over |-> HonestHdr(g), by |-> IF g = "g1" THEN "devsecret" ELSE "othersecret"],
                 chain |-> <<"chain", g>>, ents |-> <<>>]
        RECURSIVE Ext(_, _)
        Ext(w, k) == IF k > n THEN w ELSE Ext(ExtendBy(w, Signer(w, k), Owners[k]), k + 1)
    IN Ext(base, 1)

(* ---- the verifiers of voucher.go ------------------------------------------------------------ *)
VerifyHeader(w)   == w.hmac.over = w.hdr /\ w.hmac.by = "devsecret" /\ w.hmac.alg = w.hmac.calg   \* recomputed with the declared algorithm
VerifyMfgKey(w)   == w.hdr.mfgKey = "mfg"                  \* hash of the key in the device credential
VerifyCCHash(w)   == w.hdr.cchash = w.chain
EntryOK(w, i) ==
    LET e == w.ents[i] IN
    /\ e.sigBy = Signer(w, i) /\ e.sigOver = Content(e)                        \* COSE signature by the previous owner (covers the protected header)
    /\ e.hh = HdrInfo(w)                                                       \* header-info hash
    /\ e.prev = PrevObj(w, i)                                                  \* previous-entry hash
VerifyEntries(w)  == \A i \in 1..Len(w.ents) : EntryOK(w, i)
AllVerify(w)      == VerifyHeader(w) /\ VerifyMfgKey(w) /\ VerifyCCHash(w) /\ VerifyEntries(w)
OwnerKey(w)       == IF Len(w.ents) = 0 THEN w.hdr.mfgKey ELSE w.ents[Len(w.ents)].pub

(* what the property calls bound: everything but the outer version and the unprotected map of *)
(* the last entry (earlier entries' maps are covered by the next entry's previous-hash)        *)
Bound(w) ==
    LET n == Len(w.ents) IN
    [w EXCEPT !.over = "-", !.ents = [i \in 1..n |-> IF i = n THEN [w.ents[i] EXCEPT !.uhdr = "-"] ELSE w.ents[i]]]

-----------------------------------------------------------------------------
HdrFields == {"hver", "guid", "rv", "info", "mfgKey", "cchash"}
EntFields == {"sig", "prot", "prev", "hh", "extra", "pub", "uhdr"}

AlterEnt(e, f) ==
    CASE f = "sig"  -> [e EXCEPT !.sigBy = "nobody", !.sigId = "altered"]          \* altered signature bytes verify under no key
      [] f = "prot" -> [e EXCEPT !.prot = "x"]
      [] f = "prev" -> [e EXCEPT !.prev = <<"x">>]
      [] f = "hh"   -> [e EXCEPT !.hh = <<"x">>]
      [] f = "extra" -> [e EXCEPT !.extra = "x"]
      [] f = "pub"  -> [e EXCEPT !.pub = "stranger"]
      [] f = "uhdr" -> [e EXCEPT !.uhdr = "x"]

Other == Honest("g2", MaxLen)      \* a second honest voucher (other device, same manufacturer and owners)

Log(op) == ops' = Append(ops, op)

AlterHdr(f) ==
    /\ f \in HdrFields
    /\ v' = [v EXCEPT !.hdr[f] = CASE f = "mfgKey" -> "stranger" [] f = "cchash" -> <<"x">> [] OTHER -> "x"]
    /\ Log([op |-> "alter_hdr", f |-> f]) /\ UNCHANGED secrets
AlterOuter ==
    /\ v' = [v EXCEPT !.over = "x"] /\ Log([op |-> "alter_outer"]) /\ UNCHANGED secrets
AlterHmac(f) ==
    /\ f \in {"val", "alg"}
    /\ v' = IF f = "val" THEN [v EXCEPT !.hmac.over = UnknownHdr] ELSE [v EXCEPT !.hmac.alg = "otherhmac"]
    /\ Log([op |-> "alter_hmac", f |-> f]) /\ UNCHANGED secrets
AlterChain ==
    /\ v' = [v EXCEPT !.chain = <<"chain", "g2">>] /\ Log([op |-> "alter_chain"]) /\ UNCHANGED secrets     \* the other device's chain
AlterEntry(i, f) ==
    /\ i \in 1..Len(v.ents) /\ f \in EntFields
    /\ v' = [v EXCEPT !.ents[i] = AlterEnt(v.ents[i], f)]
    /\ Log([op |-> "alter_entry", i |-> i, f |-> f]) /\ UNCHANGED secrets
Swap(i, j) ==
    /\ i \in 1..Len(v.ents) /\ j \in 1..Len(v.ents) /\ i < j
    /\ v' = [v EXCEPT !.ents[i] = v.ents[j], !.ents[j] = v.ents[i]]
    /\ Log([op |-> "swap", i |-> i, j |-> j]) /\ UNCHANGED secrets
Dup(i) ==
    /\ i \in 1..Len(v.ents)
    /\ v' = [v EXCEPT !.ents = Append(v.ents, v.ents[i])]
    /\ Log([op |-> "dup", i |-> i]) /\ UNCHANGED secrets
Drop(i) ==
    /\ i \in 1..Len(v.ents)
    /\ v' = [v EXCEPT !.ents = SubSeq(v.ents, 1, i - 1) \o SubSeq(v.ents, i + 1, Len(v.ents))]
    /\ Log([op |-> "drop", i |-> i]) /\ UNCHANGED secrets
SpliceEntry(i) ==
    /\ i \in 1..Len(v.ents) /\ i <= Len(Other.ents)
    /\ v' = [v EXCEPT !.ents[i] = Other.ents[i]]
    /\ Log([op |-> "splice_entry", i |-> i]) /\ UNCHANGED secrets
SpliceHeader ==
    /\ v' = [v EXCEPT !.hdr = Other.hdr, !.hmac = Other.hmac]
    /\ Log([op |-> "splice_header"]) /\ UNCHANGED secrets

(* repairs with true secrets (isolating adversary only): Remac, Repair *)
Remac ==
    /\ Isolating /\ v' = [v EXCEPT !.hmac.over = v.hdr, !.hmac.calg = v.hmac.alg, !.hmac.by = "devsecret"]
    /\ Log([op |-> "remac"]) /\ secrets' = TRUE
(* Repair(i): recompute hashes and signatures of entries i..n with the true keys, in order  *)
(* (ECDSA and PSS signatures are randomised: re-signing entry k changes what entry k+1 must *)
(* hash, so a repair always runs to the end of the chain).                                   *)
RECURSIVE RepairFrom(_, _)
RepairFrom(w, k) ==
    IF k > Len(w.ents) THEN w
    ELSE LET e1 == [w.ents[k] EXCEPT !.prev = PrevObj(w, k), !.hh = HdrInfo(w), !.sigBy = Signer(w, k), !.sigId = "resigned"]
             e2 == [e1 EXCEPT !.sigOver = Content(e1)]
         IN RepairFrom([w EXCEPT !.ents[k] = e2], k + 1)
KnownKeys == {"mfg", "o1", "o2", "o3", "stranger"}          \* the harness holds every key of its world
Repair(i) ==
    /\ Isolating /\ i \in 1..Len(v.ents)
    /\ \A k \in i..Len(v.ents) : Signer(v, k) \in KnownKeys
    /\ v' = RepairFrom(v, i)
    /\ Log([op |-> "repair", i |-> i]) /\ secrets' = TRUE

(* Fixsig(i): sign entry i as it stands (altered payload and all) with the true key, then    *)
(* repair the rest of the chain: isolates the hash comparisons of validateNextEntry.         *)
Fixsig(i) ==
    /\ Isolating /\ i \in 1..Len(v.ents)
    /\ \A k \in i..Len(v.ents) : Signer(v, k) \in KnownKeys
    /\ LET e1 == [v.ents[i] EXCEPT !.sigBy = Signer(v, i), !.sigId = "resigned", !.sigOver = Content(v.ents[i])]
       IN v' = RepairFrom([v EXCEPT !.ents[i] = e1], i + 1)
    /\ Log([op |-> "fixsig", i |-> i]) /\ secrets' = TRUE

Init == \E n \in 0..MaxLen :
            /\ v = Honest("g1", n)
            /\ ops = <<[op |-> "init", n |-> n]>> /\ secrets = FALSE

Next ==
    /\ Len(ops) <= MaxOps
    /\ \/ \E f \in HdrFields : AlterHdr(f)
       \/ AlterOuter \/ AlterChain
       \/ \E f \in {"val", "alg"} : AlterHmac(f)
       \/ \E i \in 1..MaxLen + 1, f \in EntFields : AlterEntry(i, f)
       \/ \E i, j \in 1..MaxLen + 1 : Swap(i, j)
       \/ \E i \in 1..MaxLen + 1 : Dup(i) \/ Drop(i) \/ SpliceEntry(i)
       \/ SpliceHeader
       \/ Remac
       \/ \E i \in 1..MaxLen + 1 : Repair(i) \/ Fixsig(i)

Spec == Init /\ [][Next]_vars

-----------------------------------------------------------------------------
HonestOf(w) == Honest("g1", Len(w.ents))

(* C04, first sentence: an honest voucher verifies and names its last extension as owner *)
HonestVerifies == \A n \in 0..MaxLen : AllVerify(Honest("g1", n)) /\ OwnerKey(Honest("g1", n)) = (IF n = 0 THEN "mfg" ELSE Owners[n])

(* C04, second sentence: without secrets, verification succeeds exactly when no bound part differs *)
TamperEvident ==
    ~secrets => (AllVerify(v) <=> \E n \in 0..MaxLen : Bound(v) = Bound(Honest("g1", n)))

(* an accepted voucher names the owner the (true) chain designates *)
OwnerIsLastExtension ==
    (~secrets /\ AllVerify(v)) => OwnerKey(v) = (IF Len(v.ents) = 0 THEN "mfg" ELSE Owners[Len(v.ents)])

(* C04, third sentence *)
CanExtend(w, signer, next) == signer = OwnerKey(w) /\ KeyOfType[next] = KeyOfType[w.hdr.mfgKey]
ExtensionOnlyByOwner ==
    \A signer \in {"mfg", "o1", "o2", "o3", "stranger"} :
        CanExtend(v, signer, "o3") => signer = OwnerKey(v)
ExtendedStillVerifies ==
    AllVerify(v) /\ Len(v.ents) <= MaxLen => AllVerify(ExtendBy(v, OwnerKey(v), "o3"))
=============================================================================
