\* C11: byte-level theorems (Enc(Dec(b)) = b iff b canonical, ...) on 8 x 7 = 56 representatives per byte (3 193 prefixes, 178 808 strings) + shapes
SPECIFICATION TabSpec
CONSTANTS
  AIs = {0, 1, 23, 24, 25, 28, 31}
  Ints <- DeepInts
  Strs <- DeepStrs
  Tags <- DeepTags
  Simples <- NoSimples
  MaxStack = 1
  MaxNodes = 1
  MaxDepth = 1
  MaxArr = 0
  MaxPairs = 0
  AllowWrap = FALSE
INVARIANTS DecOnlyWellFormed ReEncodeIffCanonical DecEncDec CanonicalIsWellFormed ItemLenStable
