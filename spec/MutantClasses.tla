---------------------------- MODULE MutantClasses ----------------------------
(* C10: the classes of hostile input, shared by the server side              *)
(* (Server_Mutants, Server_Trace) and the client side (Client, Client_Trace). *)
(*                                                                           *)
(*   level   wire    the bytes that travel are mutated                       *)
(*           plain   the plaintext of a tunnel message is mutated and then   *)
(*                   protected with the real session keys, so it passes      *)
(*                   decryption and reaches the message parser               *)
(*           signed  the authenticated part of a message is mutated and the  *)
(*                   authentication repaired with keys the sender really     *)
(*                   holds, so it passes hash / signature / nonce checks and *)
(*                   reaches what is parsed only afterwards (key exchange    *)
(*                   parameters, voucher, rendezvous data, addresses)        *)
(*   family  random  seeded random structure-aware mutation (cb.Mutate)      *)
(*           struct  one CBOR item replaced / dropped / duplicated / retyped *)
(*           inner   the binary framing carried INSIDE a byte string is      *)
(*                   mutated (length-prefixed fields shorter, longer, empty, *)
(*                   inconsistent with each other; big-endian numbers and    *)
(*                   ciphertext blocks of other widths; DER lengths, keys of *)
(*                   foreign kinds) while the CBOR around it stays valid     *)
(*           volume  nothing is malformed, but a list carries very many      *)
(*                   entries, entries whose neighbours all differ, a map     *)
(*                   many keys, a string a long content - up to the 64 KiB   *)
(*                   transport limit                                         *)
Levels   == {"wire", "plain", "signed"}
Families == {"random", "struct", "inner", "volume"}
Deterministic == Families \ {"random"}       \* enumerable: every mutant of the class is a test

(* requests to the servers *)
SrvInTunnel(t)      == t \in {66, 68, 70}
SrvAuthenticated(t) == t \in {22, 32, 64}    \* to0d (hash in the owner-signed to1d); device-signed token payload
SrvKex(t)           == t = 64                \* carries a key exchange parameter (xB): every key exchange family is a world of its own there
SrvKeyEnc(t)        == t = 22                \* carries public keys in the voucher's key encoding (X.509 DER, X5CHAIN, COSE key): every encoding is a world of its own there
SrvApplies(t, lvl, fam) ==
    /\ lvl \in Levels /\ fam \in Families
    /\ (lvl = "plain" => SrvInTunnel(t))
    /\ (lvl = "signed" => SrvAuthenticated(t))

(* responses to the client roles *)
CliInTunnel(p)      == p \in {65, 67, 69, 71}
CliAuthenticated(p) == p \in {61, 63, 65}    \* owner-signed header proof and SetupDevice; manufacturer-signed voucher entry
CliKex(p)           == p = 61                \* carries a key exchange parameter (xA)
CliKeyEnc(p)        == p \in {11, 61, 63, 65} \* carries public keys in the voucher's key encoding
CliApplies(p, lvl, fam) ==
    /\ lvl \in Levels /\ fam \in Families
    /\ (lvl = "plain" => CliInTunnel(p))
    /\ (lvl = "signed" => CliAuthenticated(p))
=============================================================================
