---------------------------- MODULE Store_Trace ----------------------------
(* Trace validation for C18: every operation on the real sqlite backend and *)
(* its result (class and returned value id) must be a step of Store.tla.    *)
EXTENDS Store, Json

VARIABLE l
Trace == ndJsonDeserialize("trace.ndjson")
Ev == Trace[l]

Match == last'.res = Ev.res /\ (("v" \in DOMAIN last' /\ Ev.op \in {"get", "voucher", "removevoucher", "blob"}) => last'.v = Ev.out)

TNew     == Ev.op = "newtoken" /\ NewToken(Ev.t) /\ Match
TInv     == Ev.op = "invalidate" /\ Invalidate(Ev.t, Ev.cls) /\ Match
TSet     == Ev.op = "set" /\ Set(Ev.t, Ev.cls, Ev.f, Ev.v) /\ Match
TGet     == Ev.op = "get" /\ Get(Ev.t, Ev.cls, Ev.f) /\ Match
TAddV    == Ev.op = "addvoucher" /\ AddVoucher(Ev.g, Ev.v) /\ Match
TGetV    == Ev.op = "voucher" /\ GetVoucher(Ev.g) /\ Match
TRepV    == Ev.op = "replacevoucher" /\ ReplaceVoucher(Ev.g, Ev.g2, Ev.v) /\ Match
TRemV    == Ev.op = "removevoucher" /\ RemoveVoucher(Ev.g) /\ Match
TSetB    == Ev.op = "setblob" /\ SetBlob(Ev.g, Ev.v) /\ Match
TExpire  == Ev.op = "expire" /\ ((blobs[Ev.g].v # "absent" /\ Expire(Ev.g)) \/ (blobs[Ev.g].v = "absent" /\ UNCHANGED vars))
TGetB    == Ev.op = "blob" /\ GetBlob(Ev.g) /\ Match
TReopen  == Ev.op = "reopen" /\ Reopen /\ Match
TReset   == /\ Ev.op = "reset"
            /\ tok' = [t \in Toks |-> "unused"] /\ sess' = [t \in Toks |-> Unset]
            /\ vouchers' = [g \in Guids |-> "absent"] /\ blobs' = [g \in Guids |-> [v |-> "absent", expired |-> FALSE]]
            /\ last' = [op |-> "init"] /\ nops' = 0

TraceInit == Init /\ l = 1
TraceNext == /\ l <= Len(Trace) /\ l' = l + 1
             /\ (TNew \/ TInv \/ TSet \/ TGet \/ TAddV \/ TGetV \/ TRepV \/ TRemV \/ TSetB \/ TExpire \/ TGetB \/ TReopen \/ TReset)
TraceSpec == TraceInit /\ [][TraceNext]_<<vars, l>>
TraceAccepted == LET d == TLCGet("stats").diameter - 1 IN PrintT(<<"TRACE_HWM", d>>) /\ d = Len(Trace)
=============================================================================
