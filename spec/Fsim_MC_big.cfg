SPECIFICATION Spec
CONSTANTS
  Modules = {"download", "upload", "wget"}
  MaxLen = 12
  ChunkLens = {1, 2, 3, 4, 5}
  Deltas = {1, 2, 3, 4, 5, 6}
  MaxXfers = 1
  Servers = {"cl", "nocl", "flushed", "close", "clsrc", "redirect"}
  Musts = {FALSE, TRUE}
  ResetOnRefusal = TRUE
INVARIANTS TypeOK SuccessIdentical MismatchFails NeverPartial HonestSucceeds CorruptFails IdleAfterFinalize IdleWhenContinuing PlacedIsSuccess
