\* exhaustive: every head-size boundary of integers/strings/tags, items of <= 3 nodes
SPECIFICATION Spec
CONSTANTS
  Ints <- WideInts
  Strs <- WideStrs
  Tags <- WideTags
  Simples <- AllSimples
  MaxStack = 2
  MaxNodes = 3
  MaxDepth = 2
  MaxArr = 2
  MaxPairs = 1
  AllowWrap = TRUE
INVARIANTS Theorems 
