\* exhaustive, wide leaf set (every head-size boundary), items of at most 3 nodes
SPECIFICATION Spec
CONSTANTS
  Ints <- WideInts
  Strs <- WideStrs
  Tags <- WideTags
  MaxStack = 3
  MaxNodes = 3
  MaxDepth = 2
  MaxArr = 2
  MaxPairs = 1
INVARIANTS TypeOK RoundTrip SelfDelimiting NoItemIsAPrefix PrefixFree CanonicalEncoding ReEncode HeadIsShortest WrapIsExact
