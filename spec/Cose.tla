-------------------------------- MODULE Cose --------------------------------
(***************************************************************************)
(* COSE_Sign1 / COSE_Mac0 as used by go-fdo (cose/sign.go, cose/mac.go):   *)
(* a symbolic model of "what is signed, with which key".                   *)
(*                                                                         *)
(*   Sign      the holder of key "k" signs / MACs a payload                *)
(*   Transmit  encode -> wire -> decode (identity on the abstract object)  *)
(*   Alter     the adversary / a careless verifier changes one field       *)
(*   Verify    Sign1.Verify, or for Mac0 the recomputation of the tag and  *)
(*             comparison as callers do (kex/crypter.go Decrypt)           *)
(*                                                                         *)
(* A signature is the term [by, over, len]: made with which private key,   *)
(* over which Sig_structure <<context, protected, external_aad, payload>>  *)
(* (RFC 8152 4.4 / 6.3), and whether its length is the one the algorithm   *)
(* prescribes.  A bit-flipped signature is a signature by nobody.          *)
(* Bit-level facts about ECDSA / RSA / HMAC are outside TLA+ (DESIGN 4):   *)
(* the Go concretizer expands every abstract alteration into concrete      *)
(* ones (every bit, every impossible length, foreign keys) and judges      *)
(* them against the verdict class this model gives.                        *)
(*                                                                         *)
(* Property C13: Verify = TRUE iff the signature was made with the private *)
(* half of the verification key over exactly <<ctx, protected, aad,        *)
(* payload>> and has a well-formed length; otherwise FALSE or Error        *)
(* (either is allowed); never a crash.                                     *)
(*                                                                         *)
(* Signer options (SignOpts).  Sign1.Sign takes a crypto.Signer and        *)
(* crypto.SignerOpts chosen by the caller.  For every key kind and every   *)
(* class of options a caller can pass (nil, a hash, *rsa.PSSOptions with   *)
(* every class of salt length and hash) Sign has exactly two outcomes: it  *)
(* returns an error (only where the combination is not one the library     *)
(* documents as supported), or it produces an object that is labelled with *)
(* an algorithm of that key and whose signature conforms to that algorithm *)
(* (sig.scheme: padding, salt length, fixed-width encoding), i.e. one that *)
(* verifies with the matching key after encode / transmit / decode.  There *)
(* is no outcome "signed, but does not verify".                            *)
(*                                                                         *)
(* The protected header is a byte string holding the serialized header     *)
(* map.  Besides another map ("h1") the adversary can make the byte string *)
(* hold the honest map inexactly ("h0-inexact": followed by more bytes, or *)
(* cut short): different protected bytes, which must not verify.           *)
(***************************************************************************)
EXTENDS Integers, Sequences, FiniteSets, TLC

CONSTANTS
    Algs,           \* algorithms enumerated, subset of AllAlgs
    PayloadKinds,   \* payload kinds (data level, expanded by the concretizer)
    MaxAlter,       \* number of fields altered in one behaviour
    OptsKeys        \* key kinds for which the signer-options dimension is enumerated ({}: off)

VARIABLES
    cfg,        \* [alg, pk, det, aad, key, opts]: the configuration of this behaviour
    obj,        \* the object the signer produced
    wire,       \* the object the verifier decoded
    args,       \* the verifier's arguments [key, payload, aad]
    verdict,    \* "none" | "TRUE" | "FALSE" | "Error"
    phase,      \* "init" | "signed" | "received" | "verified" | "refused" (Sign returned an error)
    trail       \* the alterations applied, in order (history)

vars == <<cfg, obj, wire, args, verdict, phase, trail>>

-----------------------------------------------------------------------------
(* Tables (RFC 8152 / RFC 8230 / FDO 1.1 section 3.3)                       *)

AllAlgs == {"ES256", "ES384", "RS256", "RS384", "PS256", "PS384", "HMAC256", "HMAC384"}

AlgId(a) == CASE a = "ES256" -> -7 [] a = "ES384" -> -35 [] a = "RS256" -> -257 [] a = "RS384" -> -258
              [] a = "PS256" -> -37 [] a = "PS384" -> -38 [] a = "HMAC256" -> 5 [] a = "HMAC384" -> 6
HashOf(a) == IF a \in {"ES256", "RS256", "PS256", "HMAC256"} THEN "SHA256" ELSE "SHA384"
Family(a) == CASE a \in {"ES256", "ES384"} -> "ecdsa" [] a \in {"RS256", "RS384"} -> "rsa-pkcs1v15"
               [] a \in {"PS256", "PS384"} -> "rsa-pss" [] OTHER -> "hmac"
KeyFor(a) == CASE a = "ES256" -> "P-256" [] a = "ES384" -> "P-384" [] a \in {"RS256", "PS256"} -> "RSA-2048"
               [] a \in {"RS384", "PS384"} -> "RSA-3072" [] a = "HMAC256" -> "SYM-128" [] OTHER -> "SYM-256"
(* length of a well-formed signature / tag in bytes: r||s fixed width, modulus size, hash size *)
SigLen(a) == CASE a = "ES256" -> 64 [] a = "ES384" -> 96 [] a \in {"RS256", "PS256"} -> 256
               [] a \in {"RS384", "PS384"} -> 384 [] a = "HMAC256" -> 32 [] OTHER -> 48
Structure(a) == IF Family(a) = "hmac" THEN "Mac0" ELSE "Sign1"
Context(s) == IF s = "Mac0" THEN "MAC0" ELSE "Signature1"
Tag(s) == IF s = "Mac0" THEN 17 ELSE 18

(* Algorithms the library registers beyond the eight of the property (labels *)
(* an object may carry when the caller asks for SHA-512 or signs with P-521).*)
ExtAlgs == {"ES512", "RS512", "PS512"}
KnownAlgs == AllAlgs \cup ExtAlgs
ExtId(a) == CASE a = "ES512" -> -36 [] a = "RS512" -> -259 [] a = "PS512" -> -39
LabelId(a) == IF a \in AllAlgs THEN AlgId(a) ELSE ExtId(a)

(* Signer options: classes of crypto.SignerOpts values.                     *)
SignerKeys == {"P-256", "P-384", "P-521", "RSA-2048", "RSA-3072"}
OptHashes == {"SHA256", "SHA384", "SHA512", "SHA1", "none"}          \* none: crypto.Hash(0)
Salts == {"equalsHash", "auto", "hashSize", "otherPositive", "otherNegative"}
Opt(kind, h, salt) == [kind |-> kind, hash |-> h, salt |-> salt]
DefaultOpts == Opt("default", "-", "-")       \* the documented options of the algorithm (behaviours of Sign)
OptsClasses == {Opt("nil", "-", "-")} \cup {Opt("hash", h, "-") : h \in OptHashes}
               \cup {Opt("pss", h, sl) : h \in OptHashes, sl \in Salts}

IsEC(kk) == kk \in {"P-256", "P-384", "P-521"}
(* the algorithms an object signed with a key of kind kk can be labelled with *)
AlgsOfKey(kk) == CASE kk = "P-256" -> {"ES256"} [] kk = "P-384" -> {"ES384"} [] kk = "P-521" -> {"ES512"}
                   [] OTHER -> {"RS256", "RS384", "RS512", "PS256", "PS384", "PS512"}
(* the combinations Sign1.Sign documents as supported, with the label they produce: *)
(* EC keys need no options (or name their hash); RSA keys of the FDO sizes with     *)
(* their hash (PKCS #1 v1.5) or PSS options whose salt is as long as the hash       *)
Supported(kk, o) ==
    CASE kk = "P-256" /\ (o.kind = "nil" \/ (o.kind = "hash" /\ o.hash = "SHA256")) -> "ES256"
      [] kk = "P-384" /\ (o.kind = "nil" \/ (o.kind = "hash" /\ o.hash = "SHA384")) -> "ES384"
      [] kk = "RSA-2048" /\ o.kind = "hash" /\ o.hash = "SHA256" -> "RS256"
      [] kk = "RSA-3072" /\ o.kind = "hash" /\ o.hash = "SHA384" -> "RS384"
      [] kk = "RSA-2048" /\ o.kind = "pss" /\ o.hash = "SHA256" /\ o.salt \in {"equalsHash", "hashSize"} -> "PS256"
      [] kk = "RSA-3072" /\ o.kind = "pss" /\ o.hash = "SHA384" /\ o.salt \in {"equalsHash", "hashSize"} -> "PS384"
      [] OTHER -> "none"

Keys == {"k", "f", "x"}     \* the signer's key, a foreign key of the same kind, a foreign key of another kind
Priv(k) == "priv-" \o k
LenClasses == {"ok", "zero", "one", "odd", "short", "long"}
Payloads == {"p0", "p1", "nil"}
Aads == {"none", "a0", "a1"}
Fields == <<"sig", "protected", "payload", "argpayload", "aad", "key", "siglen", "algid">>
FieldIndex(f) == CHOOSE i \in 1..Len(Fields) : Fields[i] = f

None == [struct |-> "none"]

-----------------------------------------------------------------------------
Init ==
    /\ cfg = [alg |-> "none", pk |-> "none", det |-> FALSE, aad |-> FALSE, key |-> "none", opts |-> DefaultOpts]
    /\ obj = None /\ wire = None
    /\ args = [key |-> "k", payload |-> "nil", aad |-> "none"]
    /\ verdict = "none" /\ phase = "init" /\ trail = <<>>

OrigAad == IF cfg.aad THEN "a0" ELSE "none"
OrigArgs == [key |-> "k", payload |-> IF cfg.det THEN "p0" ELSE "nil", aad |-> OrigAad]

(* Sign1.Sign / Mac0.Digest: the algorithm goes into the protected header, *)
(* the signature covers context, protected header, external data, payload  *)
(* and is made the way the labelled algorithm prescribes (scheme).         *)
Produce(a, s, det, aadp) ==
    LET aadv == IF aadp THEN "a0" ELSE "none"
        prot == [alg |-> a, extra |-> "h0"]
    IN /\ obj' = [struct |-> s, prot |-> prot, payload |-> IF det THEN "nil" ELSE "p0",
                  sig |-> [by |-> Priv("k"), over |-> <<Context(s), prot, aadv, "p0">>, len |-> "ok", scheme |-> a]]
       /\ args' = [key |-> "k", payload |-> IF det THEN "p0" ELSE "nil", aad |-> aadv]

Sign(a, pk, det, aadp) ==
    /\ phase = "init"
    /\ cfg' = [alg |-> a, pk |-> pk, det |-> det, aad |-> aadp, key |-> KeyFor(a), opts |-> DefaultOpts]
    /\ Produce(a, Structure(a), det, aadp)
    /\ phase' = "signed"
    /\ UNCHANGED <<wire, verdict, trail>>

(* Sign1.Sign with a key of kind kk and caller-chosen options o. *)
SignOpts(kk, o, pk, det, aadp) ==
    /\ phase = "init"
    /\ \/ \* Sign returns an error (never for a supported combination); nothing is produced
          /\ Supported(kk, o) = "none"
          /\ cfg' = [alg |-> "none", pk |-> pk, det |-> det, aad |-> aadp, key |-> kk, opts |-> o]
          /\ phase' = "refused"
          /\ UNCHANGED <<obj, wire, args, verdict, trail>>
       \/ \* Sign succeeds: a supported combination gets its label, any other one a label of that key
          \E a \in (IF Supported(kk, o) # "none" THEN {Supported(kk, o)} ELSE AlgsOfKey(kk)) :
              /\ cfg' = [alg |-> a, pk |-> pk, det |-> det, aad |-> aadp, key |-> kk, opts |-> o]
              /\ Produce(a, "Sign1", det, aadp)
              /\ phase' = "signed"
              /\ UNCHANGED <<wire, verdict, trail>>

(* cbor.Marshal of the tagged form, cbor.Unmarshal at the receiver. *)
Transmit ==
    /\ phase = "signed"
    /\ wire' = obj
    /\ phase' = "received"
    /\ UNCHANGED <<cfg, obj, args, verdict, trail>>

(* Values a field can be changed to (never the original value; each field  *)
(* at most once, in the order of Fields).                                  *)
Values(f) ==
    CASE f = "sig" -> {"flipped"}
      [] f = "protected" -> {"h1", "h0-inexact"}
      [] f = "payload" -> {"p1", "nil"}
      \* the verifier names a payload of its own although the object embeds one (Sign1.Verify only)
      [] f = "argpayload" -> IF ~cfg.det /\ Structure(cfg.alg) = "Sign1" THEN {"p1"} ELSE {}
      [] f = "aad" -> Aads \ {OrigAad}
      [] f = "key" -> {"f", "x"}
      [] f = "siglen" -> LenClasses \ {"ok"}
      [] f = "algid" -> (AllAlgs \cup {"unknown"}) \ {cfg.alg}

Alter(f, v) ==
    /\ phase = "received"
    /\ cfg.opts = DefaultOpts           \* alterations are enumerated for the documented options
    /\ Len(trail) < MaxAlter
    /\ \A k \in 1..Len(trail) : FieldIndex(trail[k].field) < FieldIndex(f)
    /\ v \in Values(f)
    /\ CASE f = "sig" -> wire' = [wire EXCEPT !.sig.by = "nobody"] /\ UNCHANGED args
         [] f = "protected" -> wire' = [wire EXCEPT !.prot.extra = v] /\ UNCHANGED args
         [] f = "payload" -> IF cfg.det THEN args' = [args EXCEPT !.payload = v] /\ UNCHANGED wire
                                        ELSE wire' = [wire EXCEPT !.payload = v] /\ UNCHANGED args
         [] f = "argpayload" -> args' = [args EXCEPT !.payload = v] /\ UNCHANGED wire
         [] f = "aad" -> args' = [args EXCEPT !.aad = v] /\ UNCHANGED wire
         [] f = "key" -> args' = [args EXCEPT !.key = v] /\ UNCHANGED wire
         [] f = "siglen" -> wire' = [wire EXCEPT !.sig.len = v] /\ UNCHANGED args
         [] f = "algid" -> wire' = [wire EXCEPT !.prot.alg = v] /\ UNCHANGED args
    /\ trail' = Append(trail, [field |-> f, value |-> v])
    /\ UNCHANGED <<cfg, obj, verdict, phase>>

(* Sign1.Verify: a payload argument replaces the embedded payload.         *)
PayloadUsed == IF args.payload # "nil" THEN args.payload ELSE wire.payload

Accepts ==
    /\ PayloadUsed # "nil"
    /\ wire.prot.alg \in KnownAlgs
    /\ wire.sig.len = "ok"
    /\ wire.sig.by = Priv(args.key)
    /\ wire.sig.scheme = wire.prot.alg
    /\ wire.sig.over = <<Context(wire.struct), wire.prot, args.aad, PayloadUsed>>

Verify ==
    /\ phase = "received"
    /\ IF Accepts THEN verdict' = "TRUE" ELSE verdict' \in {"FALSE", "Error"}   \* either way of refusing is fine
    /\ phase' = "verified"
    /\ UNCHANGED <<cfg, obj, wire, args, trail>>

Next ==
    \/ \E a \in Algs, pk \in PayloadKinds, det \in BOOLEAN, aadp \in BOOLEAN : Sign(a, pk, det, aadp)
    \* (the options do not interact with the payload mode: detached payloads go with external data here)
    \/ \E kk \in OptsKeys, o \in OptsClasses, pk \in PayloadKinds, det \in BOOLEAN : SignOpts(kk, o, pk, det, det)
    \/ Transmit
    \/ \E i \in 1..Len(Fields) : \E v \in Values(Fields[i]) : Alter(Fields[i], v)
    \/ Verify

Spec == Init /\ [][Next]_vars

View == <<cfg, obj, wire, args, verdict, phase, Len(trail)>>

-----------------------------------------------------------------------------
(* Properties                                                              *)

TypeOK ==
    /\ phase \in {"init", "signed", "received", "verified", "refused"}
    /\ OptsKeys \subseteq SignerKeys
    /\ verdict \in {"none", "TRUE", "FALSE", "Error"}      \* there is no "Crash" outcome
    /\ args.key \in Keys /\ args.payload \in Payloads /\ args.aad \in Aads
    /\ phase \in {"received", "verified"} => wire.sig.len \in LenClasses
    /\ Len(trail) <= MaxAlter

Unaltered == wire = obj /\ args = OrigArgs

(* C13, stated on the terms. *)
VerifyExact ==
    phase = "verified" =>
        (verdict = "TRUE" <=> /\ wire.sig.by = Priv(args.key)
                              /\ wire.sig.over = <<Context(wire.struct), wire.prot, args.aad, PayloadUsed>>
                              /\ wire.sig.len = "ok" /\ wire.sig.scheme = wire.prot.alg
                              /\ PayloadUsed # "nil" /\ wire.prot.alg \in KnownAlgs)

(* ... and as the property reads: what was signed verifies after encode /  *)
(* transmit / decode with the matching key,                                *)
HonestVerifies == (phase = "verified" /\ Unaltered) => verdict = "TRUE"

(* and nothing else does: any difference in payload, protected header,     *)
(* external data, signature, its length, algorithm or key is refused.      *)
AlteredNeverVerifies == (phase = "verified" /\ ~Unaltered) => verdict \in {"FALSE", "Error"}

(* every alteration is a difference (no alteration is a no-op in the model) *)
AlterationsDiffer == (phase \in {"received", "verified"} /\ trail # <<>>) => ~Unaltered

(* the signature of an honest object covers all four parts                 *)
CoversAll ==
    phase \notin {"init", "refused"} =>
        obj.sig.over = <<Context(obj.struct), obj.prot, OrigAad, "p0">> /\ obj.prot.alg = cfg.alg

(* Signer options: whatever the caller passes, Sign either returns an error *)
(* or its product verifies (a refusal is final and produces nothing);      *)
SignedOrRefused ==
    /\ phase = "refused" => (obj = None /\ Supported(cfg.key, cfg.opts) = "none")
    /\ (phase \notin {"init", "refused"}) =>
           (obj.prot.alg \in KnownAlgs /\ obj.sig.scheme = obj.prot.alg /\ obj.sig.by = Priv("k"))
(* and what Sign produced from non-default options is never altered here:  *)
(* its verdict is the verdict of the honest verifier.                       *)
OptsVerify == (phase = "verified" /\ cfg.opts # DefaultOpts) => (Unaltered /\ verdict = "TRUE")
=============================================================================
