SPECIFICATION GenSpec
CONSTANTS
  MaxCmds = 3
  Policies = {"none", "wrap"}
  Names = {"sh", "nosuch"}
  Progs = {"o1", "e1", "mix"}
  Ends = {"exit0", "exitN"}
  ArgUnits = {1}
  DevCap = 2
  OwnCap = 2
  Requests = {"o", "me"}
  ResetBetween = TRUE
INVARIANTS Emit
