---------------------------- MODULE SvcInfo_MC ----------------------------
(* SvcInfo.tla closed with an environment: module behaviours, batch boundaries and fragment sizes  *)
(* are chosen by TLC from small sets (exhaustive check of the invariants; with a history variable,  *)
(* SvcInfo_Gen.tla, generation of module scripts).                                                  *)
EXTENDS SvcInfo

(* Model checking / behaviour generation: the environment (module behaviours, batch boundaries)     *)
(* is chosen by TLC from small sets.                                                                *)
CONSTANTS
    OModSets,   \* set of owner module sequences to start from
    DModSets,   \* set of device module sets
    Msgs,       \* message names
    MaxN,       \* largest write
    MaxW,       \* bound on module writes per run
    MaxX        \* bound on 68/69 exchanges per run

VARIABLES nw, nx, hopen

mcvars == <<vars, nw, nx, hopen>>

DevNames(d) == d       \* the abstract model does not order names

MCInit ==
    /\ \E o \in OModSets, d \in DModSets :
          Init0([omods |-> o, dmods |-> d, devnames |-> d, devmod |-> "dm"])
    /\ nw = 0 /\ nx = 0 /\ hopen = FALSE

Prefixes(q) == {SubSeq(q, 1, k) : k \in 0..Len(q)}
KVOf(q) == [i \in 1..Len(q) |-> <<q[i].m, q[i].g, q[i].n, TRUE>>]

(* Batches the device may send: a whole-segment prefix, or a prefix whose last segment is split.     *)
Batches ==
    {KVOf(p) : p \in Prefixes(AQdw)} \cup
    {KVOf(SubSeq(AQdw, 1, k - 1)) \o <<<<AQdw[k].m, AQdw[k].g, j, TRUE>>>> : k \in {i \in 1..Len(AQdw) : AQdw[i].n > 1}, j \in 1..1}

HandlerIdle == ~Dispatchable(AQo)      \* everything received in the previous round has been dispatched

MCStep ==
    \/ /\ nx < MaxX
       /\ \E more \in BOOLEAN, b \in Batches :
             /\ (~more => HandlerIdle)              \* the 68 loop ends only after the dispatcher closed its pipe
             /\ (more => b # <<>>)
             /\ Ev68(more, IF dmdone THEN b ELSE <<<<"devmod", "os", 1, TRUE>>>> \o b)
             /\ hopen' = (more /\ hopen)
       /\ nx' = nx + 1 /\ nw' = nw
    \/ /\ qdx # <<>>
       /\ \E n \in {qdx[1].n} \cup (IF qdx[1].n > 1 THEN {1} ELSE {}) :
             EvOwnerGot(CurMod, qdx[1].g, n, Get(got, D2O(CurMod, qdx[1].g)), TRUE, "d", Known(CurMod))
       /\ UNCHANGED <<nw, nx, hopen>>
    \/ /\ qdx = <<>> /\ EvOwnerDevmod(cfg.devmod, cfg.devnames) /\ UNCHANGED <<nw, nx, hopen>>
    \/ /\ qdx = <<>> /\ nw < MaxW /\ CurMod \notin {"devmod", "none"} /\ ~flags.dmnow
       /\ \E g \in Msgs \cup {"active"}, n \in 1..MaxN :
             /\ (g = "active" => n = 1 /\ Get(wrote, O2D(CurMod, "active")) = 0)
             /\ EvOwnerWrote(CurMod, g, n, Get(wrote, O2D(CurMod, g)), "d")
       /\ nw' = nw + 1 /\ UNCHANGED <<nx, hopen>>
    \/ /\ qdx = <<>> /\ CurMod \notin {"devmod", "none"} /\ ~flags.dmnow /\ EvModuleDone(CurMod) /\ UNCHANGED <<nw, nx, hopen>>
    \/ /\ qdx = <<>> /\ dmdone /\ ~flags.dmnow /\ (oidx < NOwner \/ flags.completed)
       /\ \E block \in BOOLEAN :
             EvProduce(IF flags.completed THEN cfg.omods[oidx] ELSE CurMod, block, flags.completed)
       /\ UNCHANGED <<nw, nx, hopen>>
    \/ /\ qdx = <<>> /\ (devMore \/ flags.produced \/ (~dmdone) \/ flags.dmnow)
       /\ Ev69(flags.block, flags.doneNow, KVOf(qow))
       /\ UNCHANGED <<nw, nx, hopen>>
    \/ /\ Dispatchable(AQo) /\ AQo[1].g = "active" /\ EvActivate(AQo[1].m, TRUE)
       /\ hopen' = FALSE /\ UNCHANGED <<nw, nx>>
    \/ /\ Dispatchable(AQo) /\ AQo[1].g # "active"
       /\ \E n \in {AQo[1].n} \cup (IF Len(AQo) > 1 /\ AQo[2].m = AQo[1].m /\ AQo[2].g = AQo[1].g /\ AQo[2].r < round THEN {AQo[1].n + AQo[2].n} ELSE {}) :
             EvDevGot(AQo[1].m, AQo[1].g, n, Get(got, O2D(AQo[1].m, AQo[1].g)), TRUE, "d")
       /\ hopen' = TRUE /\ UNCHANGED <<nw, nx>>
    \/ /\ HandlerIdle /\ turn = "dev" /\ ~hopen /\ ph = "run"
       /\ \E m \in cfg.dmods : IsActive(m) /\ EvYieldCall(m)
       /\ hopen' = TRUE /\ UNCHANGED <<nw, nx>>
    \/ /\ nw < MaxW /\ hopen /\ ctxm # "none"
       /\ \E g \in Msgs, n \in 1..MaxN : EvDevWrote(ctxm, g, n, Get(wrote, D2O(ctxm, g)), "d")
       /\ nw' = nw + 1 /\ UNCHANGED <<nx, hopen>>
    \/ /\ hopen /\ ctxm # "none" /\ EvDevYield(ctxm) /\ UNCHANGED <<nw, nx, hopen>>
    \/ /\ Ev70 /\ UNCHANGED <<nw, nx, hopen>>
    \/ /\ sent70 /\ EvResult(FALSE) /\ UNCHANGED <<nw, nx, hopen>>
    \/ /\ EvResult(TRUE) /\ UNCHANGED <<nw, nx, hopen>>

MCNext == ph \notin {"ok", "failed"} /\ MCStep

MCSpec == MCInit /\ [][MCNext]_mcvars

(* Vacuity probes: asserting these as invariants must produce counterexamples.                       *)
NeverOk     == ph # "ok"
NeverFailed == ph # "failed"

(* Constants of the exhaustive check (the cfg syntax has no tuples).                                *)
\* owner module lists: none, one, two, one the device does not implement ("u") followed by a known one
MC_OModSets     == {<<>>, <<"a">>, <<"a", "b">>, <<"u", "a">>}
MC_OModSetsBig  == {<<>>, <<"a">>, <<"a", "b">>, <<"u", "a">>, <<"a", "u", "b">>, <<"a", "b", "c">>}
\* device module sets: all owner modules present / one device-only module ("x"), "b" and "u" missing
MC_DModSets     == {{"a", "b"}, {"a", "x"}}
MC_DModSetsBig  == {{"a", "b", "c"}, {"a", "x"}}
=============================================================================
