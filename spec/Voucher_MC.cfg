SPECIFICATION Spec
CONSTANTS
  MaxLen = 3
  MaxOps = 2
  Isolating = TRUE
INVARIANTS HonestVerifies TamperEvident OwnerIsLastExtension ExtensionOnlyByOwner ExtendedStillVerifies
