SPECIFICATION Spec
CONSTANTS
  MTUs = {49}
  KeyLens = {1, 24}
  Rems = {0, 1, 7, 8, 9}
  MaxMsgs = 2
  TailLens = {1}
  Spans = {0, 1}
  YieldSets = {{}, {1}, {0, 2}}
  SplitKinds = {0, 24}
  TailSplitKinds = {0}
  LateKinds = {1}
  EmptyFeeds = TRUE
  Interleave = TRUE
INVARIANTS TypeOK Lossless Contiguous FitsBudget SmallIsPure YieldStartsNewBatch
PROPERTIES Delivered
