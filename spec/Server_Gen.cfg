SPECIFICATION GenSpec
CONSTANTS
  Slots = {1, 2, 3}
  Devs = {"dA", "dB"}
  Reuse = FALSE
  NMods = 1
  Policy = "none"
  Forge64 = {"resign_stranger"}
  Forge22 = {"to1d_resign_stranger"}
  Forge32 = {"resign_stranger"}
  Served = {"DI", "TO0", "TO1", "TO2"}
  MaxReq = 14
  WithMutants = FALSE
  Mutants = FALSE
INVARIANTS Emit
