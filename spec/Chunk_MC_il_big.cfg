SPECIFICATION Spec
CONSTANTS
  MTUs = {49, 256}
  KeyLens = {1, 23, 24, 40}
  Rems = {0, 1, 6, 7, 8, 9, 31, 32}
  MaxMsgs = 2
  TailLens = {1}
  Spans = {0, 1}
  YieldSets = {{}, {1}, {0, 2}}
  SplitKinds = {0, 1, 3, 6}
  Interleave = TRUE
INVARIANTS TypeOK Lossless Contiguous FitsBudget SmallIsPure YieldStartsNewBatch
PROPERTIES Delivered
