-------------------------------- MODULE Cbor --------------------------------
(***************************************************************************)
(* CBOR (RFC 8949) as used by go-fdo/cbor: the data model, the canonical   *)
(* ("core deterministic") encoder, a decoder, and well-formedness of       *)
(* arbitrary byte strings.  Everything is defined over sequences of bytes. *)
(*                                                                         *)
(* TLC integers are 32 bit, so every 64-bit quantity (integer magnitudes,  *)
(* tag numbers, declared lengths read from the wire) is a big-endian byte  *)
(* sequence.  A *magnitude* is such a sequence without leading zero bytes  *)
(* (<<>> is 0).  That is also exactly what the head-size rule needs.       *)
(*                                                                         *)
(* Properties C11 (canonical, decode/encode mutually inverse) and C12      *)
(* (decoding arbitrary bytes is total, bounded, exact) are bound to the Go *)
(* code by harness/cborx: C11 replays the behaviours of the builder machine*)
(* below (script, expected bytes); C12 compares the library with the       *)
(* verdict table of Cbor_Tab on shared inputs and with the Go reference    *)
(* decoder harness/cb (itself bound to this module through that table).    *)
(*                                                                         *)
(* Deviations of the library from RFC 8949 that the specification allows   *)
(* ("either" classes, see Class): two-byte simple values below 32 (f8 00.. *)
(* f8 1f) are structurally delimited and may be accepted or refused;       *)
(* indefinite-length items are documented as unsupported and may be        *)
(* refused (but never accepted with a wrong length).                       *)
(***************************************************************************)
EXTENDS Integers, Sequences, FiniteSets, TLC

CONSTANTS
    Ints,        \* set of integer leaves (values built with UInt/NInt)
    Strs,        \* set of string leaves (values built with BStr/TStr)
    Tags,        \* set of tag numbers (magnitudes)
    MaxStack,    \* builder: maximal number of items on the stack
    MaxNodes,    \* builder: maximal number of nodes of all items on the stack
    MaxDepth,    \* builder: maximal nesting depth of an item
    MaxArr,      \* builder: maximal array length
    MaxPairs,    \* builder: maximal number of map pairs
    AllowWrap,   \* builder: whether bstr .cbor wrapping (WrapBstr) is enabled
    Simples      \* builder: which of False, True, Null are leaves

VARIABLE stack   \* the builder's stack of data items; a state with one item is a finished item

-----------------------------------------------------------------------------
(* Bytes and magnitudes *)

Min(a, b) == IF a < b THEN a ELSE b

RECURSIVE StripZ(_)
StripZ(m) == IF Len(m) > 0 /\ m[1] = 0 THEN StripZ(Tail(m)) ELSE m

RECURSIVE Mag(_)
Mag(n) == IF n = 0 THEN <<>> ELSE Mag(n \div 256) \o <<n % 256>>    \* for small naturals (lengths)

Pad(m, w) == [i \in 1..w |-> IF i <= w - Len(m) THEN 0 ELSE m[i - (w - Len(m))]]

Rep(s, k) == [i \in 1..(k * Len(s)) |-> s[((i - 1) % Len(s)) + 1]]

IsMag(m) == Len(m) <= 8 /\ (Len(m) = 0 \/ m[1] # 0) /\ \A i \in 1..Len(m) : m[i] \in 0..255

\* value of a big-endian byte sequence, saturated at cap (cap small, so no 32-bit overflow)
RECURSIVE CapAcc(_, _, _, _)
CapAcc(raw, k, acc, cap) ==
    IF k > Len(raw) THEN acc ELSE CapAcc(raw, k + 1, Min(acc * 256 + raw[k], cap), cap)
Capped(raw, cap) == CapAcc(raw, 1, 0, cap)

\* bytewise lexicographic order on byte sequences (total)
LexLess(a, b) ==
    \E i \in 1..(Len(a) + 1) :
        /\ \A j \in 1..(i - 1) : j <= Len(b) /\ a[j] = b[j]
        /\ \/ i = Len(a) + 1 /\ Len(b) >= i
           \/ i <= Len(a) /\ i <= Len(b) /\ a[i] < b[i]

IsPrefix(a, b) == Len(a) <= Len(b) /\ \A j \in 1..Len(a) : a[j] = b[j]

-----------------------------------------------------------------------------
(* The data model.  One record shape for every item so that TLC can compare *)
(* any two items:  t  kind;  n  magnitude (uint: the value, nint: the value *)
(* is -1-n, tag: the tag number);  b  string content;  kids  children (map: *)
(* k1, v1, k2, v2, ... in canonical key order).                             *)

V(t, n, b, kids) == [t |-> t, n |-> n, b |-> b, kids |-> kids]
UInt(m)     == V("uint", m, <<>>, <<>>)
NInt(m)     == V("nint", m, <<>>, <<>>)
BStr(b)     == V("bstr", <<>>, b, <<>>)
TStr(b)     == V("tstr", <<>>, b, <<>>)
Arr(kids)   == V("arr", <<>>, <<>>, kids)
Tagged(m, v) == V("tag", m, <<>>, <<v>>)
\* bstr .cbor v (cbor.Bstr[T]): in the CBOR data model a byte string holding Enc(v); kept as a node of
\* its own in the builder so that the script records the convention and sizes stay bounded (see Plain)
Wrapped(v)  == V("wrap", <<>>, <<>>, <<v>>)
False       == V("false", <<>>, <<>>, <<>>)
True        == V("true", <<>>, <<>>, <<>>)
Null        == V("null", <<>>, <<>>, <<>>)

-----------------------------------------------------------------------------
(* Encoder: shortest-form heads (cbor.go u64Bytes/additionalInfo), map keys  *)
(* sorted bytewise by their encodings (encodeMap/BytewiseLexicalSort).       *)

Hd(major, m) ==
    LET ib(ai) == <<major * 32 + ai>> IN
    IF Len(m) = 0 THEN ib(0)
    ELSE IF Len(m) = 1 /\ m[1] < 24 THEN ib(m[1])
    ELSE IF Len(m) = 1 THEN ib(24) \o m
    ELSE IF Len(m) = 2 THEN ib(25) \o m
    ELSE IF Len(m) <= 4 THEN ib(26) \o Pad(m, 4)
    ELSE ib(27) \o Pad(m, 8)

RECURSIVE Enc(_), EncSeq(_), SortPairs(_)

EncSeq(s) == IF Len(s) = 0 THEN <<>> ELSE Enc(s[1]) \o EncSeq(Tail(s))

\* kids = k1, v1, k2, v2, ...  ->  the same pairs ordered by Enc(k) bytewise
SortPairs(kids) ==
    LET n     == Len(kids) \div 2
        pairs == [i \in 1..n |-> <<kids[2 * i - 1], kids[2 * i]>>]
        srt   == SortSeq(pairs, LAMBDA p, q : LexLess(Enc(p[1]), Enc(q[1])))
    IN  [i \in 1..(2 * n) |-> srt[(i + 1) \div 2][2 - (i % 2)]]

Enc(v) ==
    CASE v.t = "uint"  -> Hd(0, v.n)
      [] v.t = "nint"  -> Hd(1, v.n)
      [] v.t = "bstr"  -> Hd(2, Mag(Len(v.b))) \o v.b
      [] v.t = "tstr"  -> Hd(3, Mag(Len(v.b))) \o v.b
      [] v.t = "arr"   -> Hd(4, Mag(Len(v.kids))) \o EncSeq(v.kids)
      [] v.t = "map"   -> Hd(5, Mag(Len(v.kids) \div 2)) \o EncSeq(SortPairs(v.kids))
      [] v.t = "tag"   -> Hd(6, v.n) \o Enc(v.kids[1])
      [] v.t = "wrap"  -> LET c == Enc(v.kids[1]) IN Hd(2, Mag(Len(c))) \o c
      [] v.t = "false" -> <<244>>
      [] v.t = "true"  -> <<245>>
      [] v.t = "null"  -> <<246>>

\* a map value is kept in normal form (pairs in canonical order), so value equality is map equality
MkMap(kids) == V("map", <<>>, <<>>, SortPairs(kids))

Keys(kids) == {kids[2 * i - 1] : i \in 1..(Len(kids) \div 2)}
DistinctKeys(kids) == Cardinality(Keys(kids)) = Len(kids) \div 2

\* the plain data-model item of an item with bstr .cbor nodes: each is the byte string of its content
RECURSIVE Plain(_)
Plain(v) ==
    IF Len(v.kids) = 0 THEN v
    ELSE IF v.t = "wrap" THEN BStr(Enc(v.kids[1]))
    ELSE IF v.t = "map" THEN MkMap([i \in 1..Len(v.kids) |-> Plain(v.kids[i])])
    ELSE V(v.t, v.n, v.b, [i \in 1..Len(v.kids) |-> Plain(v.kids[i])])

-----------------------------------------------------------------------------
(* Reading a head *)

Width(ai) == CASE ai < 24 -> 0 [] ai = 24 -> 1 [] ai = 25 -> 2 [] ai = 26 -> 4 [] ai = 27 -> 8 [] OTHER -> 0

\* the argument bytes as on the wire (not stripped); for ai < 24 the one-byte value
Arg(b, i, ai, w) == IF ai < 24 THEN <<ai>> ELSE SubSeq(b, i + 1, i + w)

HeadMinimal(ai, raw) ==
    \/ ai < 24
    \/ ai = 24 /\ raw[1] >= 24
    \/ ai = 25 /\ raw[1] # 0
    \/ ai = 26 /\ (raw[1] # 0 \/ raw[2] # 0)
    \/ ai = 27 /\ (raw[1] # 0 \/ raw[2] # 0 \/ raw[3] # 0 \/ raw[4] # 0)

-----------------------------------------------------------------------------
(* Well-formedness of arbitrary bytes (RFC 8949 section 5.3 and appendix C). *)
(* Item(b, i) parses one item starting at position i (1-based):              *)
(*   st    "ok" or the reason the bytes are not an item                      *)
(*   next  position after the item                                           *)
(*   indef the item uses an indefinite length somewhere                      *)
(*   len   the item contains a two-byte simple value below 32 (not           *)
(*         well-formed per RFC 8949 3.3, but structurally delimited)         *)
(* Declared counts are compared with the bytes that remain (every item needs *)
(* at least one byte), so nothing here depends on the claimed 64-bit length. *)

Bad(why) == [st |-> why, next |-> 0, indef |-> FALSE, len |-> FALSE]
Good(next, indef, len) == [st |-> "ok", next |-> next, indef |-> indef, len |-> len]

RECURSIVE Item(_, _), Items(_, _, _, _, _), Chunks(_, _, _, _), IndefItems(_, _, _, _, _, _)

Items(b, p, cnt, indef, len) ==
    IF cnt = 0 THEN Good(p, indef, len)
    ELSE LET r == Item(b, p) IN
         IF r.st # "ok" THEN r ELSE Items(b, r.next, cnt - 1, indef \/ r.indef, len \/ r.len)

\* chunks of an indefinite-length string: definite-length strings of the same major type
Chunks(b, p, major, len) ==
    IF p > Len(b) THEN Bad("truncated")
    ELSE IF b[p] = 255 THEN Good(p + 1, TRUE, len)
    ELSE IF b[p] \div 32 # major \/ b[p] % 32 = 31 THEN Bad("bad chunk")
    ELSE LET r == Item(b, p) IN
         IF r.st # "ok" THEN r ELSE Chunks(b, r.next, major, len \/ r.len)

IndefItems(b, p, major, count, indef, len) ==
    IF p > Len(b) THEN Bad("truncated")
    ELSE IF b[p] = 255
         THEN IF major = 5 /\ count % 2 = 1 THEN Bad("odd map") ELSE Good(p + 1, TRUE, len)
    ELSE LET r == Item(b, p) IN
         IF r.st # "ok" THEN r ELSE IndefItems(b, r.next, major, count + 1, TRUE, len \/ r.len)

Item(b, i) ==
    IF i > Len(b) THEN Bad("truncated")
    ELSE LET ib    == b[i]
             major == ib \div 32
             ai    == ib % 32
             w     == Width(ai)
         IN
         IF ai \in 28..30 THEN Bad("reserved")
         ELSE IF ai = 31 THEN
             CASE major \in {2, 3} -> Chunks(b, i + 1, major, FALSE)
               [] major \in {4, 5} -> IndefItems(b, i + 1, major, 0, TRUE, FALSE)
               [] major = 7        -> Bad("break")
               [] OTHER            -> Bad("reserved")
         ELSE IF i + w > Len(b) THEN Bad("truncated")
         ELSE LET raw == Arg(b, i, ai, w)
                  p   == i + 1 + w
                  rem == Len(b) - (p - 1)
                  n   == Capped(raw, rem + 1)
              IN
              CASE major \in {0, 1} -> Good(p, FALSE, FALSE)
                [] major = 7        -> Good(p, FALSE, ai = 24 /\ raw[1] < 32)
                [] major \in {2, 3} -> IF n > rem THEN Bad("truncated") ELSE Good(p + n, FALSE, FALSE)
                [] major = 4        -> IF n > rem THEN Bad("truncated") ELSE Items(b, p, n, FALSE, FALSE)
                [] major = 5        -> IF 2 * n > rem THEN Bad("truncated") ELSE Items(b, p, 2 * n, FALSE, FALSE)
                [] major = 6        -> Item(b, p)

\* length of the item at the start of b; -1 if there is none
ItemLen(b) == LET r == Item(b, 1) IN IF r.st = "ok" THEN r.next - 1 ELSE -1

WellFormed(b) == LET r == Item(b, 1) IN r.st = "ok" /\ ~r.len

\* Input classes of the C12 verdict table.
\*   "bad"    no item starts b (truncated, reserved additional information, stray break, bad chunk):
\*            every decode target must return an error
\*   "def"    a well-formed definite-length item of n bytes: Ok must consume exactly n
\*   "indef"  a well-formed item using indefinite lengths (documented as unsupported): Error, or Ok
\*            consuming exactly n
\*   "len"    like def/indef but with a two-byte simple value below 32: Error or Ok consuming n
Class(b) ==
    LET r == Item(b, 1) IN
    IF r.st # "ok" THEN "bad" ELSE IF r.len THEN "len" ELSE IF r.indef THEN "indef" ELSE "def"

\* The outcome rule of C12 (the same for every target): an accepted input is an item and is consumed exactly.
\* Crash, Hang and AllocExceeded are no outcomes of the specification at all.
Allowed(b, ok, consumed) == ~ok \/ (Class(b) # "bad" /\ consumed = ItemLen(b))

\* For bstr .cbor targets (cbor.Bstr[T], cbor.ByteWrap[T]): the item is a definite byte string whose
\* content is exactly one item (of any class but "bad": what holds for an item at the top holds inside).
WrappedExact(b) ==
    /\ Len(b) > 0 /\ b[1] \div 32 = 2 /\ b[1] % 32 < 28
    /\ Class(b) = "def"
    /\ LET ai == b[1] % 32
           w  == Width(ai)
           c  == SubSeq(b, 2 + w, ItemLen(b))
       IN  Class(c) # "bad" /\ ItemLen(c) = Len(c)

-----------------------------------------------------------------------------
(* Decoder into the data model (definite lengths only; integers, strings,   *)
(* arrays, maps, tags, false/true/null).  Accepts non-minimal heads and     *)
(* unsorted maps (a decoder must); refuses duplicate keys.                  *)

DBad == [ok |-> FALSE, v |-> Null, next |-> 0]
DOk(v, next) == [ok |-> TRUE, v |-> v, next |-> next]

RECURSIVE D(_, _), DSeq(_, _, _, _)

DSeq(b, p, cnt, acc) ==
    IF cnt = 0 THEN [ok |-> TRUE, vs |-> acc, next |-> p]
    ELSE LET r == D(b, p) IN
         IF ~r.ok THEN [ok |-> FALSE, vs |-> <<>>, next |-> 0]
         ELSE DSeq(b, r.next, cnt - 1, Append(acc, r.v))

D(b, i) ==
    IF i > Len(b) THEN DBad
    ELSE LET ib    == b[i]
             major == ib \div 32
             ai    == ib % 32
             w     == Width(ai)
         IN
         IF ai > 27 \/ i + w > Len(b) THEN DBad
         ELSE LET raw == Arg(b, i, ai, w)
                  m   == StripZ(raw)
                  p   == i + 1 + w
                  rem == Len(b) - (p - 1)
                  n   == Capped(raw, rem + 1)
              IN
              CASE major = 0 -> DOk(UInt(m), p)
                [] major = 1 -> DOk(NInt(m), p)
                [] major = 2 -> IF n > rem THEN DBad ELSE DOk(BStr(SubSeq(b, p, p + n - 1)), p + n)
                [] major = 3 -> IF n > rem THEN DBad ELSE DOk(TStr(SubSeq(b, p, p + n - 1)), p + n)
                [] major = 4 -> IF n > rem THEN DBad
                                ELSE LET r == DSeq(b, p, n, <<>>) IN
                                     IF r.ok THEN DOk(Arr(r.vs), r.next) ELSE DBad
                [] major = 5 -> IF 2 * n > rem THEN DBad
                                ELSE LET r == DSeq(b, p, 2 * n, <<>>) IN
                                     IF r.ok /\ DistinctKeys(r.vs) THEN DOk(MkMap(r.vs), r.next) ELSE DBad
                [] major = 6 -> LET r == D(b, p) IN IF r.ok THEN DOk(Tagged(m, r.v), r.next) ELSE DBad
                [] major = 7 -> CASE ai = 20 -> DOk(False, p) [] ai = 21 -> DOk(True, p) [] ai = 22 -> DOk(Null, p)
                                  [] OTHER -> DBad

Dec(b) == D(b, 1)

-----------------------------------------------------------------------------
(* Canonical form of bytes: definite lengths, minimal heads, map keys strictly *)
(* increasing bytewise, only false/true/null of major type 7.                  *)

RECURSIVE Can(_, _), CanSeq(_, _, _), CanMap(_, _, _, _)

CBad == [ok |-> FALSE, next |-> 0]

CanSeq(b, p, cnt) ==
    IF cnt = 0 THEN [ok |-> TRUE, next |-> p]
    ELSE LET r == Can(b, p) IN IF ~r.ok THEN CBad ELSE CanSeq(b, r.next, cnt - 1)

\* prev = encoding of the previous key (<<>> before the first one; every encoding is longer)
CanMap(b, p, cnt, prev) ==
    IF cnt = 0 THEN [ok |-> TRUE, next |-> p]
    ELSE LET k == Can(b, p) IN
         IF ~k.ok THEN CBad
         ELSE LET kb == SubSeq(b, p, k.next - 1)
                  v  == Can(b, k.next)
              IN IF ~LexLess(prev, kb) \/ ~v.ok THEN CBad ELSE CanMap(b, v.next, cnt - 1, kb)

Can(b, i) ==
    IF i > Len(b) THEN CBad
    ELSE LET ib    == b[i]
             major == ib \div 32
             ai    == ib % 32
             w     == Width(ai)
         IN
         IF ai > 27 \/ i + w > Len(b) THEN CBad
         ELSE LET raw == Arg(b, i, ai, w)
                  p   == i + 1 + w
                  rem == Len(b) - (p - 1)
                  n   == Capped(raw, rem + 1)
              IN
              IF major # 7 /\ ~HeadMinimal(ai, raw) THEN CBad
              ELSE CASE major \in {0, 1} -> [ok |-> TRUE, next |-> p]
                     [] major \in {2, 3} -> IF n > rem THEN CBad ELSE [ok |-> TRUE, next |-> p + n]
                     [] major = 4 -> IF n > rem THEN CBad ELSE CanSeq(b, p, n)
                     [] major = 5 -> IF 2 * n > rem THEN CBad ELSE CanMap(b, p, n, <<>>)
                     [] major = 6 -> Can(b, p)
                     [] major = 7 -> IF ai \in 20..22 THEN [ok |-> TRUE, next |-> p] ELSE CBad

Canonical(b) == LET r == Can(b, 1) IN r.ok /\ r.next = Len(b) + 1

-----------------------------------------------------------------------------
(* The builder: a stack machine whose states with one item on the stack are *)
(* finished data items.  Every item is on top of the stack in the state in  *)
(* which it is created, so invariants about Top cover every item built.     *)

RECURSIVE Nodes(_), NodesSeq(_), Depth(_), DepthSeq(_)
NodesSeq(s) == IF Len(s) = 0 THEN 0 ELSE Nodes(s[1]) + NodesSeq(Tail(s))
Nodes(v) == 1 + NodesSeq(v.kids)
DepthSeq(s) == IF Len(s) = 0 THEN 0 ELSE LET d == Depth(s[1]) e == DepthSeq(Tail(s)) IN IF d > e THEN d ELSE e
Depth(v) == 1 + DepthSeq(v.kids)

Leaves == Ints \cup Strs \cup Simples
KeyKinds == {"uint", "nint", "tstr"}

LastK(k) == SubSeq(stack, Len(stack) - k + 1, Len(stack))
Replace(k, v) == SubSeq(stack, 1, Len(stack) - k) \o <<v>>

Room == NodesSeq(stack) < MaxNodes

Init == stack = <<>>

Push(x) ==
    /\ Len(stack) < MaxStack /\ Room
    /\ stack' = Append(stack, x)

WrapArray(k) ==
    /\ k <= Len(stack) /\ Room
    /\ Len(stack) - k < MaxStack
    /\ DepthSeq(LastK(k)) < MaxDepth
    /\ stack' = Replace(k, Arr(LastK(k)))

WrapMap(k) ==
    /\ 2 * k <= Len(stack) /\ Room
    /\ Len(stack) - 2 * k < MaxStack
    /\ DepthSeq(LastK(2 * k)) < MaxDepth
    /\ \A key \in Keys(LastK(2 * k)) : key.t \in KeyKinds
    /\ DistinctKeys(LastK(2 * k))
    /\ stack' = Replace(2 * k, MkMap(LastK(2 * k)))

WrapTag(n) ==
    /\ Len(stack) >= 1 /\ Room
    /\ Depth(stack[Len(stack)]) < MaxDepth
    /\ stack' = Replace(1, Tagged(n, stack[Len(stack)]))

WrapBstr ==
    /\ AllowWrap
    /\ Len(stack) >= 1 /\ Room
    /\ Depth(stack[Len(stack)]) < MaxDepth
    /\ stack' = Replace(1, Wrapped(stack[Len(stack)]))

Next ==
    \/ \E x \in Leaves : Push(x)
    \/ \E k \in 0..MaxArr : WrapArray(k)
    \/ \E k \in 0..MaxPairs : WrapMap(k)
    \/ \E n \in Tags : WrapTag(n)
    \/ WrapBstr

Spec == Init /\ [][Next]_stack

-----------------------------------------------------------------------------
(* Invariants (theorems about the codec, checked by TLC over the bounded    *)
(* universe of items the builder reaches).                                  *)

HasTop == Len(stack) > 0
Top == stack[Len(stack)]
TopEnc == Enc(Top)

TypeOK == Len(stack) <= MaxStack /\ NodesSeq(stack) <= MaxNodes

\* Each theorem is stated for an item v and its encoding e = Enc(v).

\* decode inverts encode, consuming everything
RoundTripOf(v, e) == LET r == Dec(e) IN r.ok /\ r.v = Plain(v) /\ r.next = Len(e) + 1

\* encodings are self-delimiting: the item length of Enc(v) followed by anything is Len(Enc(v))
Junk == {<<>>, <<0>>, <<255>>, <<159, 1>>, <<24>>, <<246, 246>>}
SelfDelimitingOf(e) ==
    /\ Class(e) = "def" /\ ItemLen(e) = Len(e) /\ WellFormed(e)
    /\ \A x \in Junk : ItemLen(e \o x) = Len(e)

\* no proper prefix of an encoding is an item (with SelfDelimiting: the code is prefix-free)
\* (for long encodings a sample of the cut points keeps the check linear: the first 12, the last 3, every 37th)
CutPoints(n) == {k \in 0..(n - 1) : k < 12 \/ k >= n - 3 \/ k % 37 = 0}
NoItemIsAPrefixOf(e) == \A k \in CutPoints(Len(e)) : Class(SubSeq(e, 1, k)) = "bad"

\* the encoder's output is canonical: minimal heads, map keys strictly increasing bytewise
CanonicalEncodingOf(e) == Canonical(e)

\* re-encoding what was decoded reproduces canonical bytes (stated on bytes: Enc(Dec(b)) = b)
ReEncodeOf(e) == Enc(Dec(e).v) = e

\* head minimality stated directly on the head operator
HeadIsShortestOf(v) ==
    (v.t \in {"uint", "nint", "tag"}) =>
        LET h == Hd(0, v.n) IN
        /\ IsMag(v.n)
        /\ Len(h) = (CASE Len(v.n) = 0 -> 1
                       [] Len(v.n) = 1 -> IF v.n[1] < 24 THEN 1 ELSE 2
                       [] Len(v.n) = 2 -> 3
                       [] Len(v.n) \in 3..4 -> 5
                       [] OTHER -> 9)

\* a wrapped item is a byte string whose content is exactly one item
WrapIsExactOf(v) == WrappedExact(Enc(Wrapped(v)))

RoundTrip         == HasTop => RoundTripOf(Top, TopEnc)
SelfDelimiting    == HasTop => SelfDelimitingOf(TopEnc)
NoItemIsAPrefix   == HasTop => NoItemIsAPrefixOf(TopEnc)
CanonicalEncoding == HasTop => CanonicalEncodingOf(TopEnc)
ReEncode          == HasTop => ReEncodeOf(TopEnc)
HeadIsShortest    == HasTop => HeadIsShortestOf(Top)
WrapIsExact       == HasTop => WrapIsExactOf(Top)

\* distinct items have distinct, prefix-incomparable encodings (the new top against everything below it;
\* the pairs below the top were compared when the upper one of them was the top)
PrefixFreeOf(v, e) ==
    \A j \in 1..(Len(stack) - 1) :
        LET f == Enc(stack[j]) IN
        IF e = f THEN Plain(v) = Plain(stack[j]) ELSE ~IsPrefix(e, f) /\ ~IsPrefix(f, e)
PrefixFree == HasTop => PrefixFreeOf(Top, TopEnc)

\* all of the above with the encoding computed once (what the configurations check)
Theorems ==
    /\ TypeOK
    /\ HasTop => LET v == Top e == Enc(v) IN
                 /\ PrefixFreeOf(v, e)
                 /\ RoundTripOf(v, e) /\ SelfDelimitingOf(e) /\ NoItemIsAPrefixOf(e) /\ CanonicalEncodingOf(e)
                 /\ ReEncodeOf(e) /\ HeadIsShortestOf(v) /\ WrapIsExactOf(v)
=============================================================================
