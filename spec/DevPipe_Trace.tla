---------------------------- MODULE DevPipe_Trace ----------------------------
(* Trace validation for the device-side pipeline clause of C19.  The harness *)
(* (harness/concx/pipe.go) runs the real fdo.TO2 against the real TO2Server  *)
(* with an owner module that sends `vo` logical service infos in one         *)
(* IsMoreServiceInfo round and a device module that answers with `vd`, under *)
(* a watchdog.  The goroutines of to2.go cannot be observed without hooks,   *)
(* so a run is judged end to end by what DevPipe.tla proves for its          *)
(* configuration: with vo up to the documented bound the run terminates      *)
(* (Termination, no deadlock) with everything delivered (Delivered), in      *)
(* order, and TO2 succeeds.  A watchdog expiry (hang) is a step only above   *)
(* the bound, where the documented deadlock exists.                          *)
EXTENDS DevPipe, Json

VARIABLES l, run

Trace == ndJsonDeserialize("trace.ndjson")
Ev == Trace[l]

TRun ==
    /\ Ev.ev = "run"
    /\ run' = [id |-> Ev.id, vo |-> Ev.vo, vd |-> Ev.vd]
    /\ UNCHANGED vars

TEnd ==
    /\ Ev.ev = "end" /\ Ev.id = run.id
    /\ MustTerminate(run) =>
          /\ Ev.ok
          /\ Ev.mgot = run.vo /\ Ev.dgot = (IF run.vo > 0 THEN run.vd ELSE 0)
          /\ Ev.inorder
    /\ run' = [id |-> 0, vo |-> 0, vd |-> 0]
    /\ UNCHANGED vars

THang ==
    /\ Ev.ev = "hang" /\ Ev.id = run.id
    /\ ~MustTerminate(run)
    /\ run' = [id |-> 0, vo |-> 0, vd |-> 0]
    /\ UNCHANGED vars

TraceInit ==
    /\ c = [vo |-> 0, vd |-> 0, perD |-> 1, perO |-> 1]
    /\ it = 0 /\ cur = 0 /\ mst = "closed" /\ mleft = 0 /\ out = 1 /\ outClosed = TRUE /\ nin = 0
    /\ tst = "build" /\ msg = 0 /\ pend = 0 /\ more68 = FALSE /\ more69 = FALSE /\ done69 = FALSE
    /\ oleft = 0 /\ mgot = 0 /\ dgot = 0
    /\ l = 1 /\ run = [id |-> 0, vo |-> 0, vd |-> 0]
TraceNext ==
    /\ l <= Len(Trace)
    /\ l' = l + 1
    /\ (TRun \/ TEnd \/ THang)
TraceSpec == TraceInit /\ [][TraceNext]_<<vars, l, run>>

TraceAccepted ==
    LET d == TLCGet("stats").diameter - 1 IN
    /\ PrintT(<<"TRACE_HWM", d>>)
    /\ d = Len(Trace)
=============================================================================
