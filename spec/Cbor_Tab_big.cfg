\* thorough: 8 majors x 15 additional-information classes = 120 representatives per byte (14 521 prefixes, 1 742 520 strings)
SPECIFICATION TabSpec
CONSTANTS
  AIs = {0, 1, 2, 3, 20, 21, 22, 23, 24, 25, 26, 27, 28, 30, 31}
  Ints <- DeepInts
  Strs <- DeepStrs
  Tags <- DeepTags
  MaxStack = 1
  MaxNodes = 1
  MaxDepth = 1
  MaxArr = 0
  MaxPairs = 0
  AllowWrap = FALSE
  Simples <- NoSimples
INVARIANTS Emit DecOnlyWellFormed ReEncodeIffCanonical DecEncDec CanonicalIsWellFormed ItemLenStable
