\* C12 thorough: 8 x 15 = 120 representatives per byte (14 521 prefixes, 1 742 520 strings) + shapes; all byte-level theorems
SPECIFICATION TabSpec
CONSTANTS
  AIs = {0, 1, 2, 3, 20, 21, 22, 23, 24, 25, 26, 27, 28, 30, 31}
  Ints <- DeepInts
  Strs <- DeepStrs
  Tags <- DeepTags
  Simples <- NoSimples
  MaxStack = 1
  MaxNodes = 1
  MaxDepth = 1
  MaxArr = 0
  MaxPairs = 0
  AllowWrap = FALSE
INVARIANTS Emit ItemLenStable DecOnlyWellFormed ReEncodeIffCanonical DecEncDec CanonicalIsWellFormed
