SPECIFICATION GenSpec
CONSTANTS
  Ciphers = {"A128GCM", "A192GCM", "A256GCM", "COSEAES128CBC", "COSEAES128CTR", "COSEAES256CBC", "COSEAES256CTR"}
  Sessions = {1, 2}
  AdvSessions = {1}
  Classes = {"flip_ct", "flip_iv", "flip_alg", "flip_tag", "strip_mac0", "strip_mac0+flip_ct", "strip_mac0+flip_iv", "strip_mac0+iv_len", "strip_mac0+empty_ct", "strip_mac0+truncate", "wrap_mac0", "retag", "drop_iv", "iv_len", "empty_ct", "truncate", "substitute", "plaintext", "bit_any", "short_tag+flip_ct", "short_tag+flip_iv"}
  MaxRounds = 1
  MaxMut = 1
  BareEncrypt0Accepted = FALSE
INVARIANTS Emit DecryptSound DecryptStrict FormPinned NoPlaintextOnWire FreshIV RejectFailsRun HonestAccepted
