------------------------------ MODULE Pipeline ------------------------------
(***************************************************************************)
(* The goroutine/pipe level of serviceinfo/chunk.go (property C15,         *)
(* schedules): a producer goroutine (a module writing through              *)
(* UnchunkWriter), the consumer (the send loop calling                     *)
(* ChunkReader.ReadChunk), the readers channel, and the pipes.             *)
(*                                                                         *)
(* One action per critical section / channel operation of the code:        *)
(*   nextPipe      n1 close previous pipe; n2 readerMu.Lock; (n2c: repair) *)
(*                 n3 select {<-closing | readers <- pr}; n4 (force) close,*)
(*                    w.w = pw                                             *)
(*   bufPipe       Write (one critical section: err check, signal, append),*)
(*                 Read  r1 (lock, take from buffer) / r2 (<-b.ch),        *)
(*                 CloseWithError (one critical section)                   *)
(*   io.Pipe       Write w1 (offer) / w2 (wait until consumed or closed),  *)
(*                 Read (take what is offered, or EOF), Close; an empty     *)
(*                 Write is offered like any other (off) and is taken by a  *)
(*                 Read that returns (0, nil), which io.ReadFull ignores    *)
(*   Close         x1 closeMu/closing; x2 dummy writer; x3 readerMu +      *)
(*                 close(readers); x4 w.w.Close()                          *)
(*   ReadChunk     c0 <-r.readers; key read; body io.ReadFull loop         *)
(* K = 0: unbuffered channel and io.Pipe; K > 0: channel of capacity K and *)
(* bufPipe (NewChunkOutPipe(K)).  Data are units: the key is one unit.     *)
(*                                                                         *)
(* Cancel: after any ReadChunk the consumer may stop, call                 *)
(* ChunkReader.Close and UnchunkWriter.Close (what to2.go does through     *)
(* `_ = initInfo.Close()` and `defer serviceInfoWriter.Close()` when the   *)
(* exchange ends early) while the producer goes on with its script, each   *)
(* call returning an error.                                                *)
(* Late: the consumer starts only after the producer finished (sequential  *)
(* use); needs number of pipes <= K.                                       *)
(***************************************************************************)
EXTENDS Integers, Sequences, FiniteSets, TLC

CONSTANTS
    Ks,         \* capacities of the readers channel; 0 = unbuffered + io.Pipe
    ScriptIds,  \* producer scripts (see Scripts)
    Want,       \* units ReadChunk asks io.ReadFull for
    Cancels,    \* subset of BOOLEAN: the consumer may cancel after a ReadChunk
    Lates,      \* subset of BOOLEAN: the consumer starts after the producer finished
    Stops,      \* subset of BOOLEAN: the producer stops at the first error (a module that checks errors)
    ClosingCheck \* BOOLEAN: FALSE = chunk.go as it is; TRUE = nextPipe polls w.closing (under readerMu)
                \* before the select (the proposed repair of the send-on-closed-channel panic)

VARIABLES
    cfg,            \* the configuration of this behaviour [K, sid, cancel, late, stop], chosen in Init
    ch, chClosed,   \* r.readers / w.readers: queue of pipe ids, closed flag
    closing,        \* w.closing closed
    rmu,            \* readerMu holder: "none" | "P" | "C"
    pipes,          \* pipe id -> [buf, err, rerr, tok, sig, off]
    ww,             \* w.w (pipe id, 0 = nil)
    pc,             \* [P, C] -> label
    pi,             \* producer: index of the current op
    pnew,           \* producer: the pipe being handed over
    wn,             \* producer: units of the write in progress
    perrs,          \* producer: number of failed calls
    cur,            \* consumer: r.r (pipe id, 0 = nil)
    got, rfor,      \* consumer: units read by the current io.ReadFull; what the read is for
    recv,           \* consumer: what it got: sequence of [p, n] (key reads and chunks), "small", "eof"
    panic,          \* a goroutine panicked (send on closed channel / close of closed channel)
    nid             \* next unused pipe id

vars == <<cfg, ch, chClosed, closing, rmu, pipes, ww, pc, pi, pnew, wn, perrs, cur, got, rfor, recv, panic, nid>>

(* producer ops: next = NextServiceInfo (nextPipe + key), write(n), yield = *)
(* ForceNewMessage, close                                                   *)
N == [op |-> "next", n |-> 0]
W(n) == [op |-> "write", n |-> n]
Y == [op |-> "yield", n |-> 0]
C == [op |-> "close", n |-> 0]
Scripts == <<
    <<N, W(2), C>>,                                 \* 1: one message, one full chunk
    <<N, W(1), W(2), N, W(1), C>>,                  \* 2: two messages, a value split into writes
    <<N, W(3), Y, N, W(1), C>>,                     \* 3: a yield between two messages
    <<Y, N, W(2), N, W(2), Y, C>>,                  \* 4: yields first and last, message ending on a chunk boundary
    <<N, W(1), N, W(1), N, W(1), C>>,               \* 5: three messages
    <<C>>,                                          \* 6: nothing
    <<N, W(2), W(2), W(1), C>>,                     \* 7: one message, three chunks
    <<N, W(0), W(2), C>>,                           \* 8: an empty write before the first byte
    <<N, W(1), W(0), W(2), N, W(0), W(1), W(0), C>>, \* 9: empty writes between the parts, before and after a value
    <<N, W(2), W(0), Y, N, W(1), C>>                \* 10: an empty write after a full chunk, then a yield
  >>
K == cfg.K
Script == Scripts[cfg.sid]
Cancel == cfg.cancel
Late == cfg.late
StopOnErr == cfg.stop

Buffered == K > 0
NPipesOf(sc) == Cardinality({j \in 1..Len(sc) : sc[j].op \in {"next", "yield"}})
NPipes == NPipesOf(Script)
PipeIds == 1..5                     \* at most 4 pipes per script + the dummy writer of Close
NewPipe == [buf |-> 0, err |-> "none", rerr |-> FALSE, tok |-> FALSE, sig |-> FALSE, off |-> FALSE]

Init ==
    /\ cfg \in {c \in [K : Ks, sid : ScriptIds, cancel : Cancels, late : Lates, stop : Stops] :
                    c.late => (c.K > 0 /\ NPipesOf(Scripts[c.sid]) <= c.K /\ ~c.cancel)}
    /\ ch = <<>> /\ chClosed = FALSE /\ closing = FALSE /\ rmu = "none"
    /\ pipes = [p \in PipeIds |-> NewPipe]
    /\ ww = 0
    /\ pc = [P |-> "op", C |-> IF Late THEN "wait" ELSE "c0"]
    /\ pi = 1 /\ pnew = 0 /\ wn = 0 /\ perrs = 0
    /\ cur = 0 /\ got = 0 /\ rfor = "none"
    /\ recv = <<>>
    /\ panic = FALSE
    /\ nid = 1

Goto(self, l) == pc' = [pc EXCEPT ![self] = l]

-----------------------------------------------------------------------------
(* Pipe operations.                                                         *)
(* writer-side Close / CloseWithError(e): bufPipe one critical section;     *)
(* io.PipeWriter.CloseWithError                                             *)
WClosed(ps, p, e) ==
    IF ps[p].err = "none" THEN [ps EXCEPT ![p].err = e, ![p].sig = TRUE] ELSE ps
(* reader-side CloseWithError: bufPipe has one err for both ends; io.Pipe   *)
(* keeps the reader's error separately                                      *)
RClosed(ps, p, e) ==
    IF Buffered THEN WClosed(ps, p, e) ELSE [ps EXCEPT ![p].rerr = TRUE]

-----------------------------------------------------------------------------
(* Producer.                                                                *)
OpDone(failed) ==       \* the current call returned
    /\ perrs' = perrs + (IF failed THEN 1 ELSE 0)
    /\ IF failed /\ StopOnErr /\ pi < Len(Script)
       THEN pi' = Len(Script)           \* the module returns the error; its caller closes the writer
       ELSE pi' = pi + 1
    /\ Goto("P", "op")

POp ==
    /\ pc["P"] = "op"
    /\ IF pi > Len(Script)
       THEN Goto("P", "done") /\ UNCHANGED <<wn>>
       ELSE CASE Script[pi].op \in {"next", "yield"} -> Goto("P", "n1") /\ UNCHANGED wn
              [] Script[pi].op = "write" -> Goto("P", "w1") /\ wn' = Script[pi].n
              [] Script[pi].op = "close" -> Goto("P", "x1") /\ UNCHANGED wn
    /\ UNCHANGED <<cfg, ch, chClosed, closing, rmu, pipes, ww, pi, pnew, perrs, cur, got, rfor, recv, panic, nid>>

(* nextPipe: close the writer of any existing pipe, create a new pipe       *)
PN1 ==
    /\ pc["P"] = "n1"
    /\ pipes' = IF ww # 0 THEN WClosed(pipes, ww, "eof") ELSE pipes
    /\ pnew' = nid /\ nid' = nid + 1
    /\ Goto("P", "n2")
    /\ UNCHANGED <<cfg, ch, chClosed, closing, rmu, ww, pi, wn, perrs, cur, got, rfor, recv, panic>>

PN2 ==  \* w.readerMu.Lock()
    /\ pc["P"] = "n2" /\ rmu = "none"
    /\ rmu' = "P"
    /\ Goto("P", IF ClosingCheck THEN "n2c" ELSE "n3")
    /\ UNCHANGED <<cfg, ch, chClosed, closing, pipes, ww, pi, pnew, wn, perrs, cur, got, rfor, recv, panic, nid>>

(* proposed repair: select { case <-w.closing: unlock, return ErrClosedPipe; default: } *)
PN2C ==
    /\ pc["P"] = "n2c"
    /\ IF closing
       THEN rmu' = "none" /\ pnew' = 0 /\ OpDone(TRUE)
       ELSE Goto("P", "n3") /\ UNCHANGED <<rmu, pnew, pi, perrs>>
    /\ UNCHANGED <<cfg, ch, chClosed, closing, pipes, ww, wn, cur, got, rfor, recv, panic, nid>>

(* select { case <-w.closing: ...  case w.readers <- pr: ... }              *)
PN3Closing ==
    /\ pc["P"] = "n3" /\ closing
    /\ rmu' = "none" /\ pnew' = 0
    /\ OpDone(TRUE)
    /\ UNCHANGED <<cfg, ch, chClosed, closing, pipes, ww, wn, cur, got, rfor, recv, panic, nid>>

PN3SendBuffered ==
    /\ pc["P"] = "n3" /\ Buffered /\ ~chClosed /\ Len(ch) < K
    /\ ch' = Append(ch, pnew)
    /\ rmu' = "none"
    /\ Goto("P", "n4")
    /\ UNCHANGED <<cfg, chClosed, closing, pipes, ww, pi, pnew, wn, perrs, cur, got, rfor, recv, panic, nid>>

(* unbuffered: the send completes together with the consumer's receive      *)
PN3Rendezvous ==
    /\ pc["P"] = "n3" /\ ~Buffered /\ ~chClosed
    /\ pc["C"] = "c0" /\ cur = 0
    /\ cur' = pnew
    /\ rmu' = "none"
    /\ pc' = [pc EXCEPT !["P"] = "n4", !["C"] = "key"]
    /\ UNCHANGED <<cfg, ch, chClosed, closing, pipes, ww, pi, pnew, wn, perrs, got, rfor, recv, panic, nid>>

(* a send on a closed channel is always ready in a select, and panics       *)
PN3Panic ==
    /\ pc["P"] = "n3" /\ chClosed
    /\ panic' = TRUE
    /\ Goto("P", "crashed")
    /\ UNCHANGED <<cfg, ch, chClosed, closing, rmu, pipes, ww, pi, pnew, wn, perrs, cur, got, rfor, recv, nid>>

PN4 ==
    /\ pc["P"] = "n4"
    /\ pipes' = IF Script[pi].op = "yield" THEN WClosed(pipes, pnew, "eof") ELSE pipes
    /\ ww' = pnew /\ pnew' = 0
    /\ IF Script[pi].op = "next"
       THEN Goto("P", "w1") /\ wn' = 1 /\ UNCHANGED <<pi, perrs>>      \* Encode(key)
       ELSE OpDone(FALSE) /\ UNCHANGED wn
    /\ UNCHANGED <<cfg, ch, chClosed, closing, rmu, cur, got, rfor, recv, panic, nid>>

(* Write on w.w *)
PW1 ==
    /\ pc["P"] = "w1"
    /\ IF ww = 0 THEN panic' = TRUE /\ Goto("P", "crashed") /\ UNCHANGED <<pipes, pi, perrs>>   \* nil writer
       ELSE IF Buffered
       THEN /\ IF pipes[ww].err # "none"
               THEN OpDone(TRUE) /\ UNCHANGED pipes
               ELSE pipes' = [pipes EXCEPT ![ww].tok = TRUE, ![ww].buf = @ + wn] /\ OpDone(FALSE)
            /\ UNCHANGED panic
       ELSE /\ IF pipes[ww].err # "none" \/ pipes[ww].rerr
               THEN OpDone(TRUE) /\ UNCHANGED pipes
               ELSE pipes' = [pipes EXCEPT ![ww].buf = wn, ![ww].off = TRUE] /\ Goto("P", "w2") /\ UNCHANGED <<pi, perrs>>
            /\ UNCHANGED panic
    /\ UNCHANGED <<cfg, ch, chClosed, closing, rmu, ww, pnew, wn, cur, got, rfor, recv, nid>>

PW2 ==  \* io.Pipe: wait until the reader took everything, or either end closed
    /\ pc["P"] = "w2"
    /\ \/ ~pipes[ww].off /\ OpDone(FALSE) /\ UNCHANGED pipes
       \/ /\ pipes[ww].off /\ (pipes[ww].rerr \/ pipes[ww].err # "none")
          /\ pipes' = [pipes EXCEPT ![ww].buf = 0, ![ww].off = FALSE]
          /\ OpDone(TRUE)
    /\ UNCHANGED <<cfg, ch, chClosed, closing, rmu, ww, pnew, wn, cur, got, rfor, recv, panic, nid>>

-----------------------------------------------------------------------------
(* UnchunkWriter.Close, by the producer (script) or the consumer (cancel).  *)
CloseReturn(self, failed) ==
    IF self = "P" THEN OpDone(failed)
    ELSE Goto("C", "done") /\ UNCHANGED <<pi, perrs>>

X1(self) ==
    /\ pc[self] = "x1"
    /\ IF closing
       THEN CloseReturn(self, TRUE) /\ UNCHANGED closing
       ELSE closing' = TRUE /\ Goto(self, "x2") /\ UNCHANGED <<pi, perrs>>
    /\ UNCHANGED <<cfg, ch, chClosed, rmu, pipes, ww, pnew, wn, cur, got, rfor, recv, panic, nid>>

X2(self) ==     \* if w.w == nil { _, w.w = io.Pipe() }
    /\ pc[self] = "x2"
    /\ ww' = IF ww = 0 THEN nid ELSE ww
    /\ nid' = IF ww = 0 THEN nid + 1 ELSE nid
    /\ Goto(self, "x3")
    /\ UNCHANGED <<cfg, ch, chClosed, closing, rmu, pipes, pi, pnew, wn, perrs, cur, got, rfor, recv, panic>>

X3(self) ==     \* readerMu.Lock(); close(w.readers); readerMu.Unlock()
    /\ pc[self] = "x3" /\ rmu = "none"
    /\ IF chClosed THEN panic' = TRUE ELSE UNCHANGED panic
    /\ chClosed' = TRUE
    /\ Goto(self, "x4")
    /\ UNCHANGED <<cfg, ch, closing, rmu, pipes, ww, pi, pnew, wn, perrs, cur, got, rfor, recv, nid>>

X4(self) ==     \* return w.w.Close()
    /\ pc[self] = "x4"
    /\ pipes' = WClosed(pipes, ww, "eof")
    /\ CloseReturn(self, FALSE)
    /\ UNCHANGED <<cfg, ch, chClosed, closing, rmu, ww, pnew, wn, cur, got, rfor, recv, panic, nid>>

-----------------------------------------------------------------------------
(* Consumer: ReadChunk loop.                                                *)
CWait ==    \* Late: start when the producer is done
    /\ pc["C"] = "wait" /\ pc["P"] \in {"done", "crashed"}
    /\ Goto("C", "c0")
    /\ UNCHANGED <<cfg, ch, chClosed, closing, rmu, pipes, ww, pi, pnew, wn, perrs, cur, got, rfor, recv, panic, nid>>

(* if r.r == nil { nextReader, open := <-r.readers ... }                    *)
C0 ==
    /\ pc["C"] = "c0"
    /\ \/ /\ cur # 0
          /\ got' = 0 /\ rfor' = "body" /\ Goto("C", "r1")
          /\ UNCHANGED <<ch, cur, recv>>
       \/ /\ cur = 0 /\ Len(ch) > 0
          /\ cur' = ch[1] /\ ch' = Tail(ch)
          /\ Goto("C", "key")
          /\ UNCHANGED <<got, rfor, recv>>
       \/ /\ cur = 0 /\ Len(ch) = 0 /\ chClosed
          /\ recv' = Append(recv, [k |-> "eof", p |-> 0, n |-> 0])
          /\ Goto("C", "done")
          /\ UNCHANGED <<ch, cur, got, rfor>>
    /\ UNCHANGED <<cfg, chClosed, closing, rmu, pipes, ww, pi, pnew, wn, perrs, panic, nid>>

CKey ==     \* decode the key: read one unit
    /\ pc["C"] = "key"
    /\ got' = 0 /\ rfor' = "key"
    /\ Goto("C", "r1")
    /\ UNCHANGED <<cfg, ch, chClosed, closing, rmu, pipes, ww, pi, pnew, wn, perrs, cur, recv, panic, nid>>

Need == IF rfor = "key" THEN 1 ELSE Want

(* the result of one Read call is processed by io.ReadFull / the decoder    *)
AfterRead(k, eofOrErr, ps) ==
    IF ~eofOrErr
    THEN /\ pipes' = ps
         /\ IF got + k = Need
            THEN /\ got' = 0
                 /\ IF rfor = "key"
                    THEN Goto("C", "c0b") /\ UNCHANGED <<cur, recv>>            \* key read; go on to the body
                    ELSE recv' = Append(recv, [k |-> "chunk", p |-> cur, n |-> got + k]) /\ Goto("C", "ret") /\ UNCHANGED cur
            ELSE got' = got + k /\ Goto("C", "r1") /\ UNCHANGED <<cur, recv>>
    ELSE IF rfor = "key"
         THEN \* _ = r.r.CloseWithError(err); r.r = nil; ErrSizeTooSmall (yield) or an error
              /\ pipes' = RClosed(ps, cur, "eof")
              /\ cur' = 0 /\ got' = 0
              /\ recv' = Append(recv, [k |-> "small", p |-> 0, n |-> 0])
              /\ Goto("C", "ret")
         ELSE \* io.EOF / io.ErrUnexpectedEOF: r.r = nil; n == 0 -> ReadChunk again
              /\ pipes' = ps
              /\ cur' = 0 /\ got' = 0
              /\ IF got = 0 THEN Goto("C", "c0") /\ UNCHANGED recv
                 ELSE recv' = Append(recv, [k |-> "chunk", p |-> cur, n |-> got]) /\ Goto("C", "ret")

CR1 ==
    /\ pc["C"] = "r1"
    /\ IF Buffered
       THEN \* b.Lock(); if b.buf.Len() > 0 { read } ; b.Unlock()
            IF pipes[cur].buf > 0
            THEN LET k == IF pipes[cur].buf < Need - got THEN pipes[cur].buf ELSE Need - got IN
                 AfterRead(k, FALSE, [pipes EXCEPT ![cur].buf = @ - k])
            ELSE Goto("C", "r2") /\ UNCHANGED <<pipes, cur, got, recv>>
       ELSE \* io.Pipe: take what the writer offers, or see the close
            \* (an empty write is taken with k = 0: Read returns (0, nil) and io.ReadFull reads again)
            \/ /\ pipes[cur].off
               /\ LET k == IF pipes[cur].buf < Need - got THEN pipes[cur].buf ELSE Need - got IN
                  AfterRead(k, FALSE, [pipes EXCEPT ![cur].buf = @ - k, ![cur].off = (pipes[cur].buf - k > 0)])
            \/ /\ ~pipes[cur].off /\ pipes[cur].err # "none"
               /\ AfterRead(0, TRUE, pipes)
    /\ UNCHANGED <<cfg, ch, chClosed, closing, rmu, ww, pi, pnew, wn, perrs, rfor, panic, nid>>

CR2 ==  \* _, ok := <-b.ch
    /\ pc["C"] = "r2"
    /\ \/ /\ pipes[cur].tok
          /\ pipes' = [pipes EXCEPT ![cur].tok = FALSE]
          /\ Goto("C", "r1") /\ UNCHANGED <<cur, got, recv>>
       \/ /\ ~pipes[cur].tok /\ pipes[cur].sig
          /\ AfterRead(0, TRUE, pipes)
    /\ UNCHANGED <<cfg, ch, chClosed, closing, rmu, ww, pi, pnew, wn, perrs, rfor, panic, nid>>

CBody ==    \* key decoded: io.ReadFull(r.r, buffer[:size-maxOverhead])
    /\ pc["C"] = "c0b"
    /\ got' = 0 /\ rfor' = "body"
    /\ Goto("C", "r1")
    /\ UNCHANGED <<cfg, ch, chClosed, closing, rmu, pipes, ww, pi, pnew, wn, perrs, cur, recv, panic, nid>>

CRet ==     \* ReadChunk returned; the send loop calls it again, or gives up
    /\ pc["C"] = "ret"
    /\ \/ Goto("C", "c0")
       \/ Cancel /\ Goto("C", "cx0")
    /\ UNCHANGED <<cfg, ch, chClosed, closing, rmu, pipes, ww, pi, pnew, wn, perrs, cur, got, rfor, recv, panic, nid>>

CX0 ==      \* ChunkReader.Close(): if r.r != nil { r.r.Close() }
    /\ pc["C"] = "cx0"
    /\ pipes' = IF cur # 0 THEN RClosed(pipes, cur, "eof") ELSE pipes
    /\ Goto("C", "x1")
    /\ UNCHANGED <<cfg, ch, chClosed, closing, rmu, ww, pi, pnew, wn, perrs, cur, got, rfor, recv, panic, nid>>

-----------------------------------------------------------------------------
Terminated == pc["P"] \in {"done", "crashed"} /\ pc["C"] = "done"

Producer == POp \/ PN1 \/ PN2 \/ PN2C \/ PN3Closing \/ PN3SendBuffered \/ PN3Rendezvous \/ PN3Panic \/ PN4 \/ PW1 \/ PW2
               \/ X1("P") \/ X2("P") \/ X3("P") \/ X4("P")
Consumer == CWait \/ C0 \/ CKey \/ CR1 \/ CR2 \/ CBody \/ CRet \/ CX0
               \/ X1("C") \/ X2("C") \/ X3("C") \/ X4("C")

Next == Producer \/ Consumer \/ (Terminated /\ UNCHANGED vars)

Spec == Init /\ [][Next]_vars /\ WF_vars(Producer) /\ WF_vars(Consumer)

-----------------------------------------------------------------------------
TypeOK ==
    /\ Len(ch) <= (IF Buffered THEN K ELSE 0)
    /\ rmu \in {"none", "P", "C"}
    /\ ww \in 0..(NPipes + 1) /\ cur \in 0..(NPipes + 1)

NoPanic == ~panic

Termination == <>[]Terminated

(* what the producer wrote, per pipe: key unit + value units ("yield" = 0)  *)
RECURSIVE WrittenFrom(_, _)
WrittenFrom(j, acc) ==
    IF j > Len(Script) THEN acc
    ELSE CASE Script[j].op = "next"  -> WrittenFrom(j + 1, Append(acc, 0))
           [] Script[j].op = "yield" -> WrittenFrom(j + 1, Append(acc, -1))
           [] Script[j].op = "write" -> WrittenFrom(j + 1, [acc EXCEPT ![Len(acc)] = @ + Script[j].n])
           [] OTHER -> WrittenFrom(j + 1, acc)
PerPipe == WrittenFrom(1, <<>>)

(* units received per pipe (chunks only), in pipe order                     *)
RecvUnits(p) ==
    LET RECURSIVE F(_) F(j) == IF j = 0 THEN 0
                               ELSE F(j - 1) + (IF recv[j].k = "chunk" /\ recv[j].p = p THEN recv[j].n ELSE 0)
    IN F(Len(recv))

(* without cancellation nothing is lost: at the end every message's value   *)
(* units arrived, pipes in order, one TooSmall per yield, then EOF          *)
Complete ==
    (Terminated /\ ~Cancel /\ ~panic) =>
        /\ perrs = 0
        /\ \A p \in 1..Len(PerPipe) : PerPipe[p] >= 0 => RecvUnits(p) = PerPipe[p]
        /\ Cardinality({j \in 1..Len(recv) : recv[j].k = "small"}) = Cardinality({p \in 1..Len(PerPipe) : PerPipe[p] = -1})
        /\ Len(recv) > 0 /\ recv[Len(recv)].k = "eof"
        /\ \A i, j \in 1..Len(recv) : (i < j /\ recv[i].k = "chunk" /\ recv[j].k = "chunk") => recv[i].p <= recv[j].p
=============================================================================
