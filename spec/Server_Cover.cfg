SPECIFICATION CoverSpec
CONSTANTS
  Slots = {1, 2}
  Devs = {"dA"}
  Reuse = FALSE
  NMods = 1
  Policy = "none"
  Forge64 = {"resign_stranger"}
  Forge22 = {"to1d_resign_stranger"}
  Forge32 = {"resign_stranger"}
  Served = {"DI", "TO0", "TO1", "TO2"}
  MaxReq = 7
  WithMutants = FALSE
  Fine = FALSE
VIEW CoverView
INVARIANTS Emit
CHECK_DEADLOCK FALSE
