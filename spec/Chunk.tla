------------------------------- MODULE Chunk -------------------------------
(***************************************************************************)
(* Service-info chunking of go-fdo at byte-count level (property C15).     *)
(*                                                                         *)
(*   writer side   serviceinfo.UnchunkWriter  NextServiceInfo / Write /    *)
(*                 ForceNewMessage / Close          (Next, Write, Yield,   *)
(*                 Close below; nextPipe hands one pipe per message or     *)
(*                 yield marker to the reader)                             *)
(*   reader side   serviceinfo.ChunkReader.ReadChunk(size)     (ReadOutcomes)*)
(*   batch packing to2.go exchangeServiceInfoRound: maxRead starts at the  *)
(*                 MTU, ReadChunk(maxRead), ErrSizeTooSmall ends the batch,*)
(*                 maxRead -= chunk.Size()                      (ReadStep) *)
(*   reassembly    ChunkWriter.WriteChunk (Feed), UnchunkReader.           *)
(*                 NextServiceInfo + body read (Unchunk)                   *)
(*                                                                         *)
(* Values are byte counts; byte g of the written stream carries g mod 251  *)
(* in the harness, so a chunk is identified by (message, offset, length).  *)
(* The goroutine/pipe level (blocking, hand-off, close protocol) is        *)
(* Pipeline.tla; here a read is enabled as soon as its result is           *)
(* determined (enough bytes written, or the message closed), which is what *)
(* io.ReadFull on the pipe waits for.                                      *)
(*                                                                         *)
(* Deviations from the code, on purpose (the spec states the property):    *)
(*  - ReadChunk never consumes a message when it answers TooSmall and      *)
(*    never fails: the code reads the key through LimitReader(size-7) and  *)
(*    drops the message when 7 <= size < 7 + len(rawKey).                  *)
(*  - where the space left is too small for the code's documented minimum  *)
(*    (size < len(rawKey)+7) but a value byte would fit                    *)
(*    (size >= len(rawKey)+3) the property fixes no outcome: the spec      *)
(*    allows a chunk or a pure TooSmall (mid-batch only).                  *)
(*                                                                         *)
(* Splits of a value into writes include EMPTY parts: Write(0) before,     *)
(* between and after the non-empty parts.  A write of 0 bytes is a         *)
(* stuttering step of the written stream (PWrite(ps, 0) = ps): it must not *)
(* end, cut or fail the value on either kind of pipe.  The same on the     *)
(* reassembly side: WriteChunk with an empty value next to the chunks of   *)
(* the same key (FeedEmpty) adds nothing and ends nothing.  After Close    *)
(* every further call of the writer fails and changes nothing (WLate).     *)
(***************************************************************************)
EXTENDS Integers, Sequences, FiniteSets, TLC

CONSTANTS
    MTUs,       \* budgets of a fresh batch explored by the model checker
    KeyLens,    \* key lengths (bytes of "module:message")
    Rems,       \* remainders: bytes of budget left after the first message's last chunk
    MaxMsgs,    \* 1..3 messages
    TailLens,   \* value lengths of the second and third message
    Spans,      \* how many full chunks precede the last chunk of the first message (subset of 0..1)
    YieldSets,  \* yield placements: sets of positions 0..N (before message i+1; N = before Close)
    SplitKinds, \* how the first value is split into writes (subset of 0..27, see SplitOf:
                \* kind = base + 7 * z; base 0..6 the non-empty parts, z 0..3 where empty writes go)
    TailSplitKinds, \* the same for the value of the second message
    LateKinds,  \* what the writer still calls after Close (subset of 0..4, see LateSeq)
    EmptyFeeds, \* BOOLEAN: the feeder also calls WriteChunk with empty values (FeedEmpty)
    Interleave  \* BOOLEAN: explore interleavings of writer and reader (else writer first)

VARIABLES
    mtu,        \* budget of a fresh batch
    pipes,      \* pipes handed over by nextPipe, in order: [kind, key, len, closed]
    wdone,      \* UnchunkWriter.Close() was called (readers channel closed)
    pos,        \* reader position [i, off]: next byte is byte off of pipes[i]
    budget,     \* maxRead of the batch being packed
    batch,      \* chunks of the batch being packed
    sent,       \* completed batches
    out,        \* every chunk emitted, in order: [key, n, kv, i, off, b, size]
    eof,        \* ReadChunk returned io.EOF
    fed,        \* number of chunks given to ChunkWriter.WriteChunk
    feedclosed, \* ChunkWriter.Close() called
    asm,        \* reassembly pipes created by WriteChunk: [key, n, i, off]
    taken,      \* reassembled messages handed out by NextServiceInfo and read to the end
    last,       \* outcome of the last reader step (observable)
    script, pc  \* model checking only: the writer's program and its counter

vars == <<mtu, pipes, wdone, pos, budget, batch, sent, out, eof, fed, feedclosed, asm, taken, last, script, pc>>

-----------------------------------------------------------------------------
(* CBOR sizes: serviceinfo.cborEncodedLen, KV.Size, ArraySizeCBOR.          *)
HeadLen(n) == IF n < 24 THEN 1 ELSE IF n < 256 THEN 2 ELSE 3     \* n <= 65535
RawKeyLen(k) == HeadLen(k.len) + k.len                    \* len(r.rkey): tstr head + key bytes
KVSize(k, n) == 1 + RawKeyLen(k) + HeadLen(n) + n           \* 0x82, key, bstr head, value
ArrayHead(c) == HeadLen(c)
SumKV(s) == LET RECURSIVE F(_) F(j) == IF j = 0 THEN 0 ELSE F(j - 1) + s[j].kv IN F(Len(s))
ArraySize(s) == ArrayHead(Len(s)) + SumKV(s)

(* ChunkReader.ReadChunk: "Subtract overhead of ServiceInfo CBOR".          *)
Overhead(k, size) ==
    LET o1 == 1 + RawKeyLen(k) + 1
        o2 == IF size - o1 >= 24 THEN o1 + 1 ELSE o1
        o3 == IF size - o2 >= 256 THEN o2 + 1 ELSE o2
    IN o3
Room(k, size) == size - Overhead(k, size)

Min(a, b) == IF a < b THEN a ELSE b

Key(id, len) == [id |-> IF len = 1 THEN "a" ELSE id, len |-> len]   \* every key of length 1 is ":"

-----------------------------------------------------------------------------
(* Writer: UnchunkWriter.  nextPipe closes the previous pipe and hands a    *)
(* new one over; ForceNewMessage hands over a pipe that is closed at once.  *)
CloseLast(ps) == IF Len(ps) > 0 THEN [ps EXCEPT ![Len(ps)].closed = TRUE] ELSE ps
PNext(ps, k)  == Append(CloseLast(ps), [kind |-> "msg", key |-> k, len |-> 0, closed |-> FALSE])
PWrite(ps, n) == [ps EXCEPT ![Len(ps)].len = @ + n]
PYield(ps)    == Append(CloseLast(ps), [kind |-> "yield", key |-> Key("a", 1), len |-> 0, closed |-> TRUE])
CanWrite(ps)  == Len(ps) > 0 /\ ps[Len(ps)].kind = "msg" /\ ~ps[Len(ps)].closed

WNext(k)  == ~wdone /\ pipes' = PNext(pipes, k) /\ UNCHANGED wdone
WWrite(n) == ~wdone /\ CanWrite(pipes) /\ pipes' = PWrite(pipes, n) /\ UNCHANGED wdone
WYield    == ~wdone /\ pipes' = PYield(pipes) /\ UNCHANGED wdone
WClose    == ~wdone /\ pipes' = CloseLast(pipes) /\ wdone' = TRUE
(* any call after Close (NextServiceInfo, Write, ForceNewMessage, Close):   *)
(* io.ErrClosedPipe, nothing written, nothing handed over                   *)
WLate     == wdone /\ UNCHANGED <<pipes, wdone>>

ReaderUnch == UNCHANGED <<mtu, pos, budget, batch, sent, out, eof, fed, feedclosed, asm, taken, last>>

-----------------------------------------------------------------------------
(* Reader: ChunkReader.ReadChunk(size).                                     *)
StartOf(i) == LET RECURSIVE F(_) F(j) == IF j = 0 THEN 0 ELSE F(j - 1) + pipes[j].len IN F(i - 1)
BytesBefore(p) == StartOf(p.i) + p.off                       \* value bytes in front of a position
YieldsBefore(p) == Cardinality({j \in 1..(p.i - 1) : pipes[j].kind = "yield"})

(* The set of outcomes ReadChunk(size) may have in the current state; empty *)
(* = the call blocks.  Each outcome: [out, key, n, kv, pos, yield].         *)
(*  - no pipe left: io.EOF once the writer closed, else wait                *)
(*  - a yield marker (a pipe closed at once): consumed, ErrSizeTooSmall     *)
(*  - inside a message: no room for a value byte -> ErrSizeTooSmall, nothing*)
(*    consumed; room and enough bytes (or the message closed) -> a chunk;   *)
(*    message closed and fully read (io.ReadFull returns io.EOF, n = 0) ->  *)
(*    r.r = nil and ReadChunk calls itself on the next pipe.                *)
(*  As in the code, the reader learns that a message ended either with the  *)
(*  short chunk that ends it (io.ErrUnexpectedEOF: r.r = nil at once, the   *)
(*  position moves to the next pipe) or, when the last chunk was full, by   *)
(*  the next read that has room; with no room it answers TooSmall without   *)
(*  looking (so a yield that follows costs one extra, empty batch).         *)
NoKey == [id |-> "", len |-> 0]
RECURSIVE RO(_, _)
RO(p, size) ==
    IF p.i > Len(pipes)
    THEN IF wdone THEN {[out |-> "eof", key |-> NoKey, n |-> 0, kv |-> 0, pos |-> p, yield |-> FALSE]} ELSE {}
    ELSE LET m == pipes[p.i] IN
      IF m.kind = "yield"
      THEN {[out |-> "small", key |-> NoKey, n |-> 0, kv |-> 0, pos |-> [i |-> p.i + 1, off |-> 0], yield |-> TRUE]}
      ELSE
        LET room  == Room(m.key, size)
            avail == m.len - p.off
            done  == m.closed /\ avail = 0
            small == [out |-> "small", key |-> NoKey, n |-> 0, kv |-> 0, pos |-> p, yield |-> FALSE]
            chunk(n, q) == [out |-> "chunk", key |-> m.key, n |-> n, kv |-> KVSize(m.key, n), pos |-> q, yield |-> FALSE,
                            i |-> p.i, off |-> p.off]
            det == IF avail >= room THEN {chunk(room, [i |-> p.i, off |-> p.off + room])}
                   ELSE IF m.closed THEN {chunk(avail, [i |-> p.i + 1, off |-> 0])}
                   ELSE {}
        IN IF room <= 0 THEN {small}
           ELSE IF done THEN RO([i |-> p.i + 1, off |-> 0], size)
           ELSE det \cup (IF det # {} /\ p.off = 0 /\ size < mtu /\ size < RawKeyLen(m.key) + 7 THEN {small} ELSE {})
ReadOutcomes(size) == RO(pos, size)

(* One iteration of the packing loop of exchangeServiceInfoRound.           *)
Apply(r) ==
    /\ pos' = r.pos
    /\ last' = [out |-> r.out, key |-> r.key, n |-> r.n, kv |-> r.kv, size |-> budget, yield |-> r.yield,
                 b0 |-> BytesBefore(pos), b1 |-> BytesBefore(r.pos), y0 |-> YieldsBefore(pos), y1 |-> YieldsBefore(r.pos)]
    /\ CASE r.out = "chunk" ->
              LET c == [key |-> r.key, n |-> r.n, kv |-> r.kv, i |-> r.i, off |-> r.off,
                        b |-> Len(sent) + 1, size |-> budget] IN
              /\ batch' = Append(batch, c)
              /\ out' = Append(out, c)
              /\ budget' = budget - r.kv
              /\ UNCHANGED <<sent, eof>>
         [] r.out = "small" ->
              /\ sent' = Append(sent, batch) /\ batch' = <<>> /\ budget' = mtu
              /\ UNCHANGED <<out, eof>>
         [] r.out = "eof" ->
              /\ sent' = Append(sent, batch) /\ batch' = <<>> /\ budget' = mtu
              /\ eof' = TRUE
              /\ UNCHANGED out

ReadStep ==
    /\ ~eof
    /\ \E r \in ReadOutcomes(budget) : Apply(r)
    /\ UNCHANGED <<mtu, pipes, wdone, fed, feedclosed, asm, taken, script, pc>>

-----------------------------------------------------------------------------
(* Reassembly: ChunkWriter.WriteChunk keeps streaming while the key does    *)
(* not change, else closes the pipe and opens a new one.                    *)
FeedOne(a, c) ==
    IF Len(a) > 0 /\ a[Len(a)].key = c.key
    THEN [a EXCEPT ![Len(a)].n = @ + c.n]
    ELSE Append(a, [key |-> c.key, n |-> c.n, i |-> c.i, off |-> c.off])

Feed ==
    /\ fed < Len(out) /\ ~feedclosed
    /\ fed' = fed + 1
    /\ asm' = FeedOne(asm, out[fed + 1])
    /\ UNCHANGED <<mtu, pipes, wdone, pos, budget, batch, sent, out, eof, feedclosed, taken, last, script, pc>>

(* WriteChunk(key, empty value) before, between or after the chunks of a    *)
(* message: allowed for the key of the chunk that comes next, or for the    *)
(* key being streamed.  It opens the reassembly pipe of a new key (as the   *)
(* first non-empty chunk would) and adds no bytes.                          *)
CanFeedEmpty(k) ==
    /\ ~feedclosed
    /\ \/ fed < Len(out) /\ k = out[fed + 1].key
       \/ fed > 0 /\ k = out[fed].key /\ Len(asm) > 0 /\ asm[Len(asm)].key = k
FeedEmpty(k) ==
    /\ CanFeedEmpty(k)
    /\ asm' = IF Len(asm) > 0 /\ asm[Len(asm)].key = k THEN asm
              ELSE Append(asm, [key |-> k, n |-> 0, i |-> out[fed + 1].i, off |-> out[fed + 1].off])
    /\ UNCHANGED <<mtu, pipes, wdone, pos, budget, batch, sent, out, eof, fed, feedclosed, taken, last, script, pc>>

FeedClose ==
    /\ eof /\ fed = Len(out) /\ ~feedclosed
    /\ feedclosed' = TRUE
    /\ UNCHANGED <<mtu, pipes, wdone, pos, budget, batch, sent, out, eof, fed, asm, taken, last, script, pc>>

(* NextServiceInfo + reading the body to its end: possible once the         *)
(* reassembly pipe is complete (a later key arrived, or the writer closed). *)
Unchunk ==
    /\ taken < Len(asm)
    /\ (taken + 1 < Len(asm) \/ feedclosed)
    /\ taken' = taken + 1
    /\ UNCHANGED <<mtu, pipes, wdone, pos, budget, batch, sent, out, eof, fed, feedclosed, asm, last, script, pc>>

-----------------------------------------------------------------------------
(* What was written, as the reassembly side must deliver it: messages in    *)
(* order, consecutive equal keys concatenated (yield markers carry no data).*)
RECURSIVE MergeFrom(_, _)
MergeFrom(j, acc) ==
    IF j > Len(pipes) THEN acc
    ELSE IF pipes[j].kind # "msg" THEN MergeFrom(j + 1, acc)
    ELSE IF Len(acc) > 0 /\ acc[Len(acc)].key = pipes[j].key
         THEN MergeFrom(j + 1, [acc EXCEPT ![Len(acc)].n = @ + pipes[j].len])
         ELSE MergeFrom(j + 1, Append(acc, [key |-> pipes[j].key, n |-> pipes[j].len, i |-> j, off |-> 0]))
Written == MergeFrom(1, <<>>)

Terminal == eof /\ feedclosed /\ taken = Len(asm)

-----------------------------------------------------------------------------
(* Invariants.                                                              *)
TypeOK ==
    /\ mtu \in Nat /\ budget \in 0..mtu
    /\ pos.i \in 1..(Len(pipes) + 1) /\ pos.off >= 0
    /\ fed \in 0..Len(out) /\ taken \in 0..Len(asm)

(* Lossless: what has been reassembled is a prefix of what was written --   *)
(* same keys, same order, same byte positions -- and equal at the end.      *)
Lossless ==
    LET W == Written IN
    /\ Len(asm) <= Len(W)
    /\ \A j \in 1..Len(asm) :
         /\ asm[j].key = W[j].key
         /\ asm[j].i = W[j].i /\ asm[j].off = 0       \* starts at the first byte of the group
         /\ IF j < Len(asm) THEN asm[j].n = W[j].n ELSE asm[j].n <= W[j].n
    /\ (eof /\ fed = Len(out)) => [j \in 1..Len(asm) |-> [key |-> asm[j].key, n |-> asm[j].n]]
                                   = [j \in 1..Len(W) |-> [key |-> W[j].key, n |-> W[j].n]]

(* The chunk stream itself is gapless and duplicate-free.                   *)
NextMsg(i) == LET S == {j \in (i + 1)..Len(pipes) : pipes[j].kind = "msg" /\ pipes[j].len > 0} IN
              IF S = {} THEN 0 ELSE CHOOSE j \in S : \A x \in S : j <= x
Contiguous ==
    /\ Len(out) > 0 => out[1].i = NextMsg(0) /\ out[1].off = 0
    /\ \A j \in 1..(Len(out) - 1) :
         \/ out[j + 1].i = out[j].i /\ out[j + 1].off = out[j].off + out[j].n
         \/ /\ out[j + 1].i = NextMsg(out[j].i) /\ out[j + 1].off = 0
            /\ out[j].off + out[j].n = pipes[out[j].i].len /\ pipes[out[j].i].closed
    /\ \A j \in 1..Len(out) : out[j].n >= 1 /\ out[j].off + out[j].n <= pipes[out[j].i].len
    /\ eof => (Len(out) = 0 /\ NextMsg(0) = 0)
              \/ (Len(out) > 0 /\ NextMsg(out[Len(out)].i) = 0
                  /\ out[Len(out)].off + out[Len(out)].n = pipes[out[Len(out)].i].len)

(* Every chunk fits the size it was asked for; every batch fits the budget. *)
FitsBudget ==
    /\ \A j \in 1..Len(out) : out[j].kv = KVSize(out[j].key, out[j].n) /\ out[j].kv <= out[j].size
    /\ \A b \in 1..Len(sent) : SumKV(sent[b]) <= mtu
    /\ SumKV(batch) + budget = mtu

(* ErrSizeTooSmall never consumes data (a yield marker is not data).        *)
SmallIsPure ==
    /\ (last.out = "small" /\ ~last.yield) => (last.b1 = last.b0 /\ last.y1 = last.y0)
    /\ (last.out = "small" /\ last.yield)  => (last.b1 = last.b0 /\ last.y1 = last.y0 + 1)

(* A yield separates batches: chunks of messages before and after a yield   *)
(* marker never share a batch.                                              *)
YieldStartsNewBatch ==
    \A y \in 1..Len(pipes) : pipes[y].kind = "yield" =>
        \A c1 \in 1..Len(out), c2 \in 1..Len(out) :
            (out[c1].i < y /\ y < out[c2].i) => out[c1].b < out[c2].b

-----------------------------------------------------------------------------
(* Model checking: the writer follows a script chosen in Init.              *)
Op(o)       == [op |-> o, key |-> NoKey, n |-> 0]
OpNext(k)   == [op |-> "next", key |-> k, n |-> 0]
OpWrite(n)  == [op |-> "write", key |-> NoKey, n |-> n]

(* value lengths whose single chunk leaves exactly rem bytes of the budget  *)
LenFor(bud, k, rem) ==
    {n \in {bud - rem - 1 - RawKeyLen(k) - h : h \in 1..3} : n >= 1 /\ KVSize(k, n) = bud - rem}

(* splits of a value of n bytes into at most three non-empty writes ...      *)
BaseSplit(n, kind) ==
    CASE kind = 0 \/ n < 2 -> <<n>>
      [] kind = 1 -> <<1, n - 1>>
      [] kind = 2 -> <<n - 1, 1>>
      [] kind = 3 -> <<n \div 2, n - (n \div 2)>>
      [] kind = 4 /\ n >= 3 -> <<1, 1, n - 2>>
      [] kind = 5 /\ n >= 3 -> <<n - 2, 1, 1>>
      [] kind = 6 /\ n >= 3 -> <<n \div 3, n \div 3, n - 2 * (n \div 3)>>
      [] OTHER -> <<n>>
(* ... with empty writes: z = 1 one before every part, z = 2 one after every *)
(* part, z = 3 before every part and after the last one                     *)
RECURSIVE ZeroMix(_, _, _)
ZeroMix(sp, z, j) ==
    IF j > Len(sp) THEN (IF z = 3 THEN <<0>> ELSE <<>>)
    ELSE (CASE z = 1 \/ z = 3 -> <<0, sp[j]>> [] z = 2 -> <<sp[j], 0>> [] OTHER -> <<sp[j]>>) \o ZeroMix(sp, z, j + 1)
SplitOf(n, kind) == ZeroMix(BaseSplit(n, kind % 7), kind \div 7, 1)
Writes(sp) == [j \in 1..Len(sp) |-> OpWrite(sp[j])]

RECURSIVE Render(_, _, _)
Render(msgs, ys, j) ==      \* msgs: sequence of [key, writes]; ys: yield positions
    IF j > Len(msgs) THEN (IF Len(msgs) \in ys THEN <<Op("yield")>> ELSE <<>>) \o <<Op("close")>>
    ELSE (IF (j - 1) \in ys THEN <<Op("yield")>> ELSE <<>>)
         \o <<OpNext(msgs[j].key)>> \o Writes(msgs[j].writes) \o Render(msgs, ys, j + 1)

(* calls after Close, by name; a late next names the key "a" of length 4    *)
LateSeq(kind) ==
    CASE kind = 1 -> <<"write">>
      [] kind = 2 -> <<"close">>
      [] kind = 3 -> <<"write", "close", "next", "yield">>
      [] kind = 4 -> <<"next", "write", "close">>
      [] OTHER -> <<>>
LateOps(names) == [j \in 1..Len(names) |->
    CASE names[j] = "next"  -> OpNext(Key("a", 4))
      [] names[j] = "write" -> OpWrite(1)
      [] OTHER -> Op(names[j])]

Scripts(m) ==
    UNION { UNION { UNION {
      { Render(<<[key |-> k1, writes |-> SplitOf(n1 + sp * Room(k1, m), sk)]>> \o tail, ys, 1) \o LateOps(LateSeq(late)) :
          ys \in {y \in YieldSets : \A p \in y : p <= 1 + Len(tail)}, late \in LateKinds }
        : tail \in {<<>>}
            \cup (IF MaxMsgs >= 2 THEN
                    {<<[key |-> Key(id2, l2), writes |-> SplitOf(t2, sk2)]>> :
                        id2 \in {"a", "b"}, l2 \in KeyLens, t2 \in TailLens, sk2 \in TailSplitKinds}
                  ELSE {})
            \cup (IF MaxMsgs >= 3 THEN
                    {<<[key |-> Key("b", l2), writes |-> SplitOf(t2, sk2)], [key |-> Key(id3, 4), writes |-> <<2>>]>> :
                        l2 \in KeyLens, t2 \in TailLens, sk2 \in TailSplitKinds, id3 \in {"b", "c"}}
                  ELSE {}) }
      : n1 \in LenFor(m, k1, rem), sp \in Spans, sk \in SplitKinds }
      : k1 \in {Key("a", l) : l \in KeyLens}, rem \in Rems }

(* the whole script at once (writer first)                                  *)
RECURSIVE RunScript(_, _, _)
RunScript(s, j, ps) ==
    IF j > Len(s) \/ (j > 1 /\ s[j - 1].op = "close") THEN ps        \* what follows Close changes nothing
    ELSE LET o == s[j] IN
         RunScript(s, j + 1, CASE o.op = "next"  -> PNext(ps, o.key)
                               [] o.op = "write" -> PWrite(ps, o.n)
                               [] o.op = "yield" -> PYield(ps)
                               [] o.op = "close" -> CloseLast(ps))

InitReader(m) ==
    /\ mtu = m
    /\ pos = [i |-> 1, off |-> 0]
    /\ budget = m /\ batch = <<>> /\ sent = <<>> /\ out = <<>> /\ eof = FALSE
    /\ fed = 0 /\ feedclosed = FALSE /\ asm = <<>> /\ taken = 0
    /\ last = [out |-> "init", yield |-> FALSE]

InitWith(m, s) ==
    /\ InitReader(m) /\ script = s
    /\ IF Interleave
       THEN pc = 1 /\ pipes = <<>> /\ wdone = FALSE
       ELSE pc = Len(s) + 1 /\ pipes = RunScript(s, 1, <<>>) /\ wdone = TRUE

Init == \E m \in MTUs : \E s \in Scripts(m) : InitWith(m, s)

WriterStep ==
    /\ pc <= Len(script)
    /\ LET o == script[pc] IN
         CASE wdone -> WLate
           [] ~wdone /\ o.op = "next"  -> WNext(o.key)
           [] ~wdone /\ o.op = "write" -> WWrite(o.n)
           [] ~wdone /\ o.op = "yield" -> WYield
           [] ~wdone /\ o.op = "close" -> WClose
    /\ pc' = pc + 1
    /\ ReaderUnch /\ UNCHANGED script

WriterDone == pc > Len(script)

(* Interleave: every order of writer, reader, feeder and consumer steps;     *)
(* otherwise one canonical order (writer, reads, feeds, consumer).          *)
Next ==
    \/ WriterStep
    \/ (Interleave \/ WriterDone) /\ ReadStep
    \/ (Interleave \/ eof) /\ Feed
    \/ (Interleave \/ eof) /\ EmptyFeeds /\ (\E k \in {out[j].key : j \in 1..Len(out)} : FeedEmpty(k))
    \/ FeedClose
    \/ (Interleave \/ feedclosed) /\ Unchunk

Spec == Init /\ [][Next]_vars /\ WF_vars(Next)

(* every behaviour ends with everything delivered                           *)
Delivered == <>[](Terminal /\ [j \in 1..Len(asm) |-> asm[j].n] = [j \in 1..Len(Written) |-> Written[j].n])
=============================================================================
