SPECIFICATION TraceSpec
INVARIANTS TypeOK RecvLeSent Conservation CompleteAtDone SequentialOwners OnlyActiveReceive UnknownStayInactive DoneExactly EndsWithDone
POSTCONDITION TraceAccepted
CHECK_DEADLOCK FALSE
