----------------------------- MODULE Chunk_Gen -----------------------------
(* Behaviour generation: for every parameter tuple of the grid (budget,     *)
(* writer script) the specification's chunk sequence per batch and the      *)
(* reassembled stream, printed as JSON once everything is delivered.  The   *)
(* history is the state itself (sent, asm).  Where the specification allows *)
(* two outcomes, one behaviour per outcome is printed; the check groups     *)
(* them by parameter tuple.                                                 *)
EXTENDS Chunk, Json

ChunkJ(c) == [key |-> c.key, n |-> c.n, kv |-> c.kv]
BatchJ(b) == [j \in 1..Len(b) |-> ChunkJ(b[j])]

Emit == Terminal =>
    PrintT("BEHAVIOUR " \o ToJson([mtu |-> mtu, script |-> script,
                                   sent |-> [b \in 1..Len(sent) |-> BatchJ(sent[b])],
                                   asm |-> [j \in 1..Len(asm) |-> [key |-> asm[j].key, n |-> asm[j].n]]]))
=============================================================================
