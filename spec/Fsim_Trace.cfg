SPECIFICATION TraceSpec
CONSTANTS
  Modules = {"download"}
  MaxLen = 1
  ChunkLens = {1}
  Deltas = {1}
  MaxXfers = 1
  Servers = {"cl"}
  Musts = {FALSE}
  ResetOnRefusal = TRUE
INVARIANTS TraceIdle
POSTCONDITION TraceAccepted
CHECK_DEADLOCK FALSE
