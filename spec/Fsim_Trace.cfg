SPECIFICATION TraceSpec
CONSTANTS
  Modules = {"download"}
  MaxLen = 1
  ChunkLens = {1}
  Deltas = {1}
INVARIANTS TypeOK NeverPartial SuccessIdentical
POSTCONDITION TraceAccepted
CHECK_DEADLOCK FALSE
