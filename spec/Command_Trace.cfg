SPECIFICATION TraceSpec
CONSTANTS
  MaxCmds = 3
  Policies = {"none", "wrap", "refuse"}
  Names = {"sh", "empty", "nosuch"}
  Progs = {"none"}
  Ends = {"exit0", "exitN", "selfkill", "sigtrap", "sigkill", "timeout"}
  ArgUnits = {1}
  DevCap = 1
  OwnCap = 1
  Requests = {"-"}
  ResetBetween = TRUE
POSTCONDITION TraceAccepted
CHECK_DEADLOCK FALSE
