--------------------------- MODULE Lifecycle_Gen ---------------------------
(* Histories of Lifecycle.tla with the projection expected after each step. *)
EXTENDS Lifecycle, Json

VARIABLE hist

GenInit == Init /\ hist = <<>>
GenNext == Next /\ hist' = Append(hist, [act |-> last', proj |-> Proj'])
GenSpec == GenInit /\ [][GenNext]_<<vars, hist>>

(* only histories that went somewhere: a complete onboarding is part of it *)
Interesting == \E i \in 1..Len(hist) : hist[i].act.a = "to2" /\ hist[i].act.served
Emit == (steps = MaxSteps /\ Interesting) => PrintT("BEHAVIOUR " \o ToJson(hist))
=============================================================================
