--------------------------- MODULE Lifecycle_Gen ---------------------------
(* Histories of Lifecycle.tla with the projection expected after each step. *)
EXTENDS Lifecycle, Json

VARIABLE hist

GenInit == Init /\ hist = <<>>
(* the extended alphabet is explored by random walks (-simulate); fewer cut positions there so   *)
(* that the walks are not dominated by the variants of TO2                                      *)
ExtCuts == {NoCut, [kind |-> "resplost", t |-> 70], [kind |-> "reqlost", t |-> 64], [kind |-> "err255", t |-> 66], StoreFail(70), DelFail}
NextExt ==
    /\ steps < MaxSteps
    /\ \/ \E c \in {NoCut, [kind |-> "resplost", t |-> 12], StoreFail(12)} : DI(c)
       \/ \E k \in 0..1 : Handover(k)
       \/ \E r \in BOOLEAN, c \in ExtCuts, u \in BOOLEAN : TO2(r, c, u)
       \/ Resell \/ Persist \/ ResellBad \/ Restore \/ ResellMissing \/ Register \/ Expire \/ Locate
GenNext == (IF Ext THEN NextExt ELSE Next) /\ hist' = Append(hist, [act |-> last', proj |-> Proj'])
GenSpec == GenInit /\ [][GenNext]_<<vars, hist>>

(* only histories that went somewhere: a complete onboarding is part of it *)
Interesting == \E i \in 1..Len(hist) : hist[i].act.a = "to2" /\ hist[i].act.served
Emit == (steps = MaxSteps /\ Interesting) => PrintT("BEHAVIOUR " \o ToJson(hist))
=============================================================================
