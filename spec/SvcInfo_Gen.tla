---------------------------- MODULE SvcInfo_Gen ----------------------------
(* Behaviour generation for C16: random walks of SvcInfo_MC (tlc -simulate) with a history of the   *)
(* events; a walk that reaches a terminal state is printed as JSON.  checks/c16.py cuts the events  *)
(* of a walk into module scripts (what each owner module does in its k-th ProduceInfo call, what     *)
(* each device module does in its k-th Receive / Yield call); every write carries a size class       *)
(* relative to the MTU of its direction, which the concretiser turns into bytes for an MTU pair.     *)
EXTENDS SvcInfo_MC, Json, Randomization

VARIABLE hist

AsSeq(S) == CHOOSE q \in [1..Cardinality(S) -> S] : Range(q) = S

Classes  == {"one", "small", "fitm", "fit", "fitp", "two", "three"}
NDevs    == {0, 1, 2, 24, 200}        \* number of further device module names (never activated)

\* 0-3 owner modules; "u" and "v" are not implemented by the device, "x" is implemented by the device only
Gen_OModSets == {<<>>, <<"a">>, <<"a", "b">>, <<"u", "a">>, <<"a", "u">>, <<"a", "b", "c">>, <<"a", "u", "b">>, <<"b", "a", "v">>}
Gen_DModSets == {{"a", "b", "c"}, {"a", "b", "c", "x"}, {"a", "x"}}

Label(e) ==
    IF e.ev \in {"owner_wrote", "dev_wrote"} /\ e.msg # "active"
    THEN [ev |-> e.ev, mod |-> e.mod, msg |-> e.msg, cls |-> RandomElement(Classes)]
    ELSE IF e.ev \in {"m68", "m69"} THEN [ev |-> e.ev] ELSE e

GenInit ==
    /\ MCInit
    /\ hist = <<[ev |-> "config", omods |-> cfg.omods, dmods |-> AsSeq(cfg.dmods), ndev |-> RandomElement(NDevs)]>>

(* Shape the walks: batch boundaries are decided by the real chunker, so the abstract device always  *)
(* sends everything it has; owner modules mostly behave (activate first, stop when the device        *)
(* answers inactive); the misbehaving variants are kept with a small probability.                    *)
Rare == RandomElement(1..12) = 1
Shaped ==
    LET e == last' IN
    /\ (e.ev = "m68" => qdw' = <<>>)
    /\ (e.ev = "owner_wrote" /\ e.msg # "active" =>
            \/ Get(wrote, O2D(e.mod, "active")) = 1 /\ (Known(e.mod) \/ Get(got, D2O(e.mod, "active")) = 0 \/ Rare)
            \/ Rare)
    /\ (e.ev = "owner_wrote" /\ e.msg = "active" => Get(wrote, O2D(e.mod, "active")) = 0)

GenNext ==
    /\ MCNext
    /\ Shaped
    /\ hist' = Append(hist, Label(last'))

GenSpec == GenInit /\ [][GenNext]_<<mcvars, hist>>

Emit == (ph \in {"ok", "failed"}) => PrintT("BEHAVIOUR " \o ToJson(hist))
=============================================================================
