----------------------------- MODULE Client_Gen -----------------------------
(* Enumeration of the classed mutants of the client roles: every role walks  *)
(* honestly to every one of its response positions and receives there a     *)
(* mutant of every deterministic class that applies (MutantClasses).  One    *)
(* record is printed per (role, position, occurrence of that position, level, *)
(* family); the harness delivers every mutant of the class to the real role. *)
EXTENDS Client, Json, FiniteSets

VARIABLE m      \* the classed mutant received in this run (<<>>: none yet)

GInit == Init /\ m = <<>>

Occurrence == Cardinality({i \in 1..(at - 1) : Positions[role][i] = Positions[role][at]})

GNext ==
    /\ m = <<>>
    /\ \/ RecvHonest /\ state' = "running" /\ UNCHANGED m
       \/ \E lvl \in Levels, fam \in Deterministic :
             /\ RecvMutatedCls(lvl, fam)
             /\ m' = [role |-> role, pos |-> Positions[role][at], nth |-> Occurrence, level |-> lvl, fam |-> fam, kex |-> CliKex(Positions[role][at]), enc |-> CliKeyEnc(Positions[role][at])]

GSpec == GInit /\ [][GNext]_<<vars, m>>
GView == <<role, at, m>>

Emit ==
    IF m = <<>> THEN TRUE
    ELSE LET seen == TLCGet(9) IN
         IF m \in seen THEN TRUE
         ELSE TLCSet(9, seen \cup {m}) /\ PrintT("BEHAVIOUR " \o ToJson(m))

ASSUME TLCSet(9, {})
=============================================================================
