-------------------------------- MODULE Fsim --------------------------------
(***************************************************************************)
(* File transfer by the service-info modules fdo.download, fdo.upload and   *)
(* fdo.wget (fsim/*.go) as property C17 sees it.                            *)
(*                                                                         *)
(* One TRANSFER.  The source is a file of `len` bytes.  The sender announces *)
(* a length and a SHA-384 digest, then the content arrives at the receiver   *)
(* in chunks (service-info "data" messages for download/upload, the HTTP     *)
(* body for wget).  One value may be corrupted between the sender and the    *)
(* receiving module (inside the tunnel): a data byte, the announced digest,  *)
(* or the length (announced length for download/upload, the length of the    *)
(* body for wget, which announces no length to the device).                  *)
(* Finalize places the file at the destination iff the received length       *)
(* equals the announced length and the digest of what was received equals    *)
(* the announced digest; otherwise it reports failure and the destination    *)
(* stays absent.  A transfer whose announced length is never reached does    *)
(* not finalize at all; it ends with the error result of the bounded TO2     *)
(* (Stall).  Digests are abstract and collision free: the digest of the      *)
(* received bytes equals the source digest iff the received bytes are the    *)
(* source bytes.  Actions: AnnounceLen / AnnounceDig (Announce), Data(n),     *)
(* Finalize, Stall; Corrupt(field) is the scenario's `cor` applied by the     *)
(* environment actions SendLen / SendDig / SendChunk below.                   *)
(*                                                                         *)
(* The HTTP SERVER of a wget transfer (scenario field `srv`) frames the body *)
(* in one of several ways: with a Content-Length that is the length of what  *)
(* it serves ("cl"; "redirect": after a 302 to another URL), without any     *)
(* Content-Length ("nocl": chunked transfer encoding in one piece,           *)
(* "flushed": chunked, flushed piece by piece, "close": HTTP/1.0 body         *)
(* delimited by the end of the connection), or with the Content-Length of    *)
(* the original file while the body is shorter or longer ("clsrc").  The      *)
(* framing decides what the module is given (AnnounceHttp, Given): a body    *)
(* longer than its Content-Length is cut there by HTTP; a body shorter than  *)
(* its Content-Length is a transport error.  Whatever the framing, the file  *)
(* the module is given decides: identical => placed, else refused.           *)
(*                                                                         *)
(* One SESSION.  A TO2 session runs up to MaxXfers transfers one after the   *)
(* other through ONE instance of the receiving device module (TO2 calls      *)
(* Transition only when the active state changes, so nothing but the module  *)
(* itself cleans up between two files).  The module holds a temp file and a  *)
(* byte counter / running hash (mTemp, mCarry).  Finalize releases them      *)
(* whatever its outcome (fsim/download_device.go `defer d.reset()`,           *)
(* wget_device.go deferred Remove + reset in Yield): the module is idle      *)
(* again, and the next transfer is judged on its own.  The session goes on   *)
(* after a success, and after a refused download whose owner module has      *)
(* MustDownload = false (done = -1 is not an error for it); any other        *)
(* failure ends TO2 with an error.  NextXfer / EndSession.                    *)
(*                                                                         *)
(* ResetOnRefusal = FALSE is a sensitivity probe of the model only: a        *)
(* refusing Finalize that keeps the module state must violate                *)
(* HonestSucceeds / IdleAfterFinalize (checked by checks/c17.py).             *)
(***************************************************************************)
EXTENDS Integers, Sequences, FiniteSets, TLC

CONSTANTS
    Modules,     \* subset of {"download", "upload", "wget"}
    MaxLen,      \* file lengths 1..MaxLen (abstract units)
    ChunkLens,   \* chunk lengths in units
    Deltas,      \* by how much a length is corrupted
    MaxXfers,    \* transfers per session (through one module instance)
    Servers,     \* subset of {"cl", "nocl", "flushed", "close", "clsrc", "redirect"}
    Musts,       \* values of DownloadContents.MustDownload, subset of BOOLEAN
    ResetOnRefusal   \* TRUE: as the code is meant; FALSE: probe

Cors == {"none", "data", "digest", "len+", "len-"}

VARIABLES
    sess,     \* session: [mod, must]
    xi,       \* number of the current transfer, 1..MaxXfers
    sstage,   \* "run" | "over"
    placed,   \* numbers of the transfers whose file is at the destination
    mTemp,    \* the receiving module holds a temp file
    mCarry,   \* bytes (and hash state) the module still holds from before this transfer
    sc,       \* scenario of the current transfer: [mod, len, chunk, cor, k (index of the corrupted chunk), d (length delta), srv, floor]
    stage,    \* "init" | "xfer" | "end"
    annLen,   \* announced length as the receiver learns it (-1: not yet)
    annDig,   \* "none" | "src" (the digest of the source) | "bad"
    httpLen,  \* wget: Content-Length of the response (-2: no response yet, -1: none)
    sent,     \* source bytes handed to the transfer
    nchunk,   \* chunks delivered so far
    rcvLen,   \* bytes the receiving module was given in this transfer
    taint,    \* some received byte differs from the source byte at its position
    dest,     \* "absent" | "same" (a file with the source bytes under the announced name) | "other"
    result,   \* "none" | "success" | "failure"
    stalled   \* the transfer ended without Finalize

xvars == <<sc, stage, annLen, annDig, httpLen, sent, nchunk, rcvLen, taint, dest, result, stalled>>
svars == <<sess, xi, sstage, placed, mTemp, mCarry>>
vars  == <<svars, xvars>>

Min(a, b) == IF a < b THEN a ELSE b
Max(a, b) == IF a > b THEN a ELSE b

RcvIsSource  == rcvLen = sc.len /\ ~taint
RcvDig       == IF RcvIsSource THEN "src" ELSE "different"
Matches      == annLen = rcvLen /\ annDig = RcvDig             \* the property's condition on THIS transfer
(* what Finalize verifies: the module's counter and hash, which are this transfer's iff nothing was carried *)
Verified     == annLen = mCarry + rcvLen /\ annDig = (IF mCarry = 0 THEN RcvDig ELSE "different")

Scenarios ==
    {[mod |-> m, len |-> l, chunk |-> c, cor |-> x, k |-> k, d |-> d, srv |-> s, floor |-> FALSE] :
        m \in Modules, l \in 1..MaxLen, c \in ChunkLens, x \in Cors, k \in 1..3, d \in Deltas, s \in Servers \cup {"na"}}

MaxChunk == CHOOSE c \in ChunkLens : \A e \in ChunkLens : c >= e

Canonical(s) ==       \* parameters that do not matter for a corruption class are pinned
    /\ (s.cor # "data" => s.k = 1)
    /\ (s.cor = "data" => s.k <= (s.len + s.chunk - 1) \div s.chunk)
    /\ (s.cor \notin {"len+", "len-"} => s.d = CHOOSE d \in Deltas : \A e \in Deltas : d <= e)
    /\ (s.mod # "wget" <=> s.srv = "na")
    /\ (s.mod = "wget" /\ s.srv # "flushed" => s.chunk = MaxChunk)   \* one HTTP body; "flushed": pieces of `chunk`
    /\ (s.srv = "clsrc" => s.cor \in {"len+", "len-"})                  \* otherwise the same as "cl"

ScenFor(m) == {s \in Scenarios : Canonical(s) /\ s.mod = m}

XferInit ==
    /\ stage = "init" /\ annLen = -1 /\ annDig = "none" /\ httpLen = -2
    /\ sent = 0 /\ nchunk = 0 /\ rcvLen = 0 /\ taint = FALSE
    /\ dest = "absent" /\ result = "none" /\ stalled = FALSE

Init ==
    /\ sess \in {s \in [mod : Modules, must : Musts] : s.mod # "download" => s.must = (CHOOSE b \in Musts : TRUE)}
    /\ xi = 1 /\ sstage = "run" /\ placed = {} /\ mTemp = FALSE /\ mCarry = 0
    /\ sc \in ScenFor(sess.mod)
    /\ XferInit

(* The receiving module learns the length (download: before the data; upload: before the data; wget: the  *)
(* owner keeps it).                                                                                     *)
AnnounceLen(n) ==
    /\ stage \in {"init", "xfer"} /\ annLen = -1
    /\ annLen' = n
    /\ stage' = "xfer"
    /\ UNCHANGED <<svars, sc, annDig, httpLen, sent, nchunk, rcvLen, taint, dest, result, stalled>>

(* ... and the digest (upload: after the data).                                                          *)
AnnounceDig(ok) ==
    /\ stage \in {"init", "xfer"} /\ annDig = "none"
    /\ annDig' = IF ok THEN "src" ELSE "bad"
    /\ stage' = "xfer"
    /\ UNCHANGED <<svars, sc, annLen, httpLen, sent, nchunk, rcvLen, taint, dest, result, stalled>>

(* wget: the response header arrives; n = its Content-Length, -1 if it has none.                          *)
AnnounceHttp(n) ==
    /\ stage \in {"init", "xfer"} /\ httpLen = -2 /\ n >= -1
    /\ httpLen' = n
    /\ stage' = "xfer"
    /\ UNCHANGED <<svars, sc, annLen, annDig, sent, nchunk, rcvLen, taint, dest, result, stalled>>

(* HTTP framing: of n body bytes on the wire the module is given those within the Content-Length.        *)
Given(n) == IF httpLen >= 0 THEN Min(n, Max(0, httpLen - rcvLen)) ELSE n
(* the body ended before the Content-Length was reached: a transport error                               *)
Short    == httpLen >= 0 /\ rcvLen < httpLen

(* A chunk of n bytes is given to the receiving module; same = it equals the source at this position.    *)
(* It goes to the module's temp file and running hash.                                                  *)
Data(n, same) ==
    /\ stage \in {"init", "xfer"}
    /\ LET m == Given(n) IN
       /\ rcvLen' = rcvLen + m
       /\ taint' = (taint \/ (m > 0 /\ ~same) \/ rcvLen + m > sc.len)
    /\ nchunk' = nchunk + 1
    /\ mTemp' = TRUE
    /\ stage' = "xfer"
    /\ UNCHANGED <<sess, xi, sstage, placed, mCarry, sc, annLen, annDig, httpLen, dest, result, stalled>>      \* `sent` is the caller's

(* The receiver verifies and places the file, or reports failure; either way it lets go of the temp file,  *)
(* the counter and the hash: it is idle for the next file.                                                *)
Finalize ==
    /\ stage = "xfer"
    /\ IF Verified /\ ~Short
       THEN /\ dest' = (IF RcvIsSource /\ mCarry = 0 THEN "same" ELSE "other") /\ result' = "success"
            /\ placed' = placed \cup {xi}
       ELSE /\ dest' = "absent" /\ result' = "failure"
            /\ placed' = placed
    /\ IF (Verified /\ ~Short) \/ ResetOnRefusal
       THEN mTemp' = FALSE /\ mCarry' = 0
       ELSE mTemp' = mTemp /\ mCarry' = mCarry + rcvLen
    /\ stage' = "end"
    /\ UNCHANGED <<sess, xi, sstage, sc, annLen, annDig, httpLen, sent, nchunk, rcvLen, taint, stalled>>

(* The announced length is never reached: the transfer never finalizes; the bounded TO2 ends in error.   *)
Stall ==
    /\ stage = "xfer" /\ mCarry + rcvLen < annLen
    /\ dest' = "absent" /\ result' = "failure" /\ stalled' = TRUE
    /\ stage' = "end"
    /\ UNCHANGED <<svars, sc, annLen, annDig, httpLen, sent, nchunk, rcvLen, taint>>

-----------------------------------------------------------------------------
(* The session.                                                                                          *)
Continues ==
    \/ result = "success"
    \/ result = "failure" /\ ~stalled /\ sess.mod = "download" /\ ~sess.must     \* done = -1 is accepted by the owner module

NextXfer ==
    /\ sstage = "run" /\ stage = "end" /\ Continues /\ xi < MaxXfers
    /\ xi' = xi + 1
    /\ sc' \in ScenFor(sess.mod)
    /\ stage' = "init" /\ annLen' = -1 /\ annDig' = "none" /\ httpLen' = -2
    /\ sent' = 0 /\ nchunk' = 0 /\ rcvLen' = 0 /\ taint' = FALSE
    /\ dest' = "absent" /\ result' = "none" /\ stalled' = FALSE
    /\ UNCHANGED <<sess, sstage, placed, mTemp, mCarry>>

EndSession ==
    /\ sstage = "run" /\ stage = "end"
    /\ sstage' = "over"
    /\ UNCHANGED <<sess, xi, placed, mTemp, mCarry, xvars>>

-----------------------------------------------------------------------------
(* The honest sender and the adversary in the tunnel, driven by the scenario.                            *)
SrcLen     == sc.len
CorLen(n)  == CASE sc.cor = "len+" -> n + sc.d [] sc.cor = "len-" -> Max(0, n - sc.d) [] OTHER -> n
BodyLen    == IF sc.mod = "wget" THEN CorLen(SrcLen) ELSE SrcLen        \* wget: the HTTP body is what is altered
AllSent    == sent = BodyLen
HdrLen     == CASE sc.srv \in {"cl", "redirect"} -> BodyLen
                [] sc.srv = "clsrc"              -> SrcLen
                [] OTHER                         -> -1
Held       == mCarry + rcvLen                    \* the module's byte counter

SendLen ==
    /\ annLen = -1 /\ (sc.mod = "upload" \/ annDig # "none" \/ sc.mod = "wget")
    /\ AnnounceLen(IF sc.mod = "wget" THEN SrcLen ELSE CorLen(SrcLen))

SendDig ==
    /\ annDig = "none"
    /\ (sc.mod = "upload" => AllSent /\ annLen # -1)       \* upload sends sha-384 after the data
    /\ AnnounceDig(sc.cor # "digest")

SendHdr ==
    /\ sc.mod = "wget" /\ annLen # -1 /\ annDig # "none"
    /\ AnnounceHttp(HdrLen)

SendChunk ==
    /\ sstage = "run"
    /\ annLen # -1 /\ (sc.mod # "upload" => annDig # "none")
    /\ (sc.mod = "wget" => httpLen # -2)
    /\ ~AllSent
    /\ (sc.mod = "download" => Held < annLen)             \* the device finalizes as soon as the length is reached
    /\ LET n0 == Min(sc.chunk, BodyLen - sent)
           n  == IF sent < SrcLen THEN Min(n0, SrcLen - sent) ELSE n0      \* a piece does not straddle the end of the source
       IN
       /\ Data(n, ~(sc.cor = "data" /\ nchunk + 1 = sc.k) /\ sent + n <= SrcLen)
       /\ sent' = sent + n

Finish ==
    /\ annLen # -1 /\ annDig # "none"
    /\ \/ Held >= annLen /\ (sc.mod = "download" \/ AllSent) /\ sc.mod # "wget" /\ Finalize
       \/ sc.mod = "wget" /\ httpLen # -2 /\ AllSent /\ Finalize                  \* wget verifies when the body ends
       \/ AllSent /\ Held < annLen /\ sc.mod # "wget" /\ Stall

Next == SendLen \/ SendDig \/ SendHdr \/ SendChunk \/ Finish \/ NextXfer \/ EndSession

Spec == Init /\ [][Next]_vars

-----------------------------------------------------------------------------
(* C17, for every transfer of a session *)
(* a body longer than the Content-Length of the original file is cut to the original file by HTTP       *)
Masked           == sc.mod = "wget" /\ sc.srv = "clsrc" /\ sc.cor = "len+"
SuccessIdentical == result = "success" => dest = "same"
MismatchFails    == (stage = "end" /\ ~Matches) => (result = "failure" /\ dest = "absent")
NeverPartial     == dest \in {"absent", "same"}
HonestSucceeds   == (stage = "end" /\ (sc.cor = "none" \/ Masked)) => (result = "success" /\ dest = "same")
CorruptFails     == (stage = "end" /\ sc.cor # "none" /\ ~Masked) => (result = "failure" /\ dest = "absent")
(* the module is idle after every Finalize, whatever its outcome; it matters where the session goes on:   *)
(* the same instance gets the next file (a receiver of a session that ends in error is thrown away)        *)
IdleAfterFinalize == (stage = "end" /\ ~stalled) => (~mTemp /\ mCarry = 0)
IdleWhenContinuing == (stage = "end" /\ Continues) => (~mTemp /\ mCarry = 0)
PlacedIsSuccess  == (stage = "end") => ((xi \in placed) <=> (result = "success"))
TypeOK ==
    /\ stage \in {"init", "xfer", "end"} /\ dest \in {"absent", "same", "other"}
    /\ result \in {"none", "success", "failure"} /\ annDig \in {"none", "src", "bad"}
    /\ sstage \in {"run", "over"} /\ xi \in 1..MaxXfers /\ placed \subseteq 1..xi
    /\ mTemp \in BOOLEAN /\ mCarry \in Nat /\ httpLen >= -2 /\ stalled \in BOOLEAN

(* vacuity probes *)
NeverEnds     == stage # "end"
NeverSecond   == ~(xi > 1 /\ stage = "end" /\ result = "success")
NeverAfterRefusal == ~(xi > 1 /\ stage = "end" /\ result = "success" /\ Cardinality(placed) < xi)
=============================================================================
