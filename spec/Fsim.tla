-------------------------------- MODULE Fsim --------------------------------
(***************************************************************************)
(* File transfer by the service-info modules fdo.download, fdo.upload and   *)
(* fdo.wget (fsim/*.go) as property C17 sees it.                            *)
(*                                                                         *)
(* The source is a file of `len` bytes.  The sender announces a length and   *)
(* a SHA-384 digest, then the content arrives at the receiver in chunks      *)
(* (service-info "data" messages for download/upload, the HTTP body for      *)
(* wget).  One value may be corrupted between the sender and the receiving   *)
(* module (inside the tunnel): a data byte, the announced digest, or the     *)
(* length (announced length for download/upload, the length of the body for  *)
(* wget, which announces no length to the device).                           *)
(* Finalize places the file at the destination iff the received length       *)
(* equals the announced length and the digest of what was received equals    *)
(* the announced digest; otherwise it reports failure and the destination    *)
(* stays absent.  A transfer whose announced length is never reached does    *)
(* not finalize at all; it ends with the error result of the bounded TO2     *)
(* (Stall).  Digests are abstract and collision free: the digest of the      *)
(* received bytes equals the source digest iff the received bytes are the    *)
(* source bytes.  Actions: AnnounceLen / AnnounceDig (Announce), Data(n),     *)
(* Finalize, Stall; Corrupt(field) is the scenario's `cor` applied by the     *)
(* environment actions SendLen / SendDig / SendChunk below.                   *)
(***************************************************************************)
EXTENDS Integers, Sequences, TLC

CONSTANTS
    Modules,     \* subset of {"download", "upload", "wget"}
    MaxLen,      \* file lengths 1..MaxLen (abstract units)
    ChunkLens,   \* chunk lengths in units
    Deltas       \* by how much a length is corrupted

Cors == {"none", "data", "digest", "len+", "len-"}

VARIABLES
    sc,       \* scenario: [mod, len, chunk, cor, k (index of the corrupted chunk), d (length delta), floor]
    stage,    \* "init" | "xfer" | "end"
    annLen,   \* announced length as the receiver learns it (-1: not yet)
    annDig,   \* "none" | "src" (the digest of the source) | "bad"
    sent,     \* source bytes handed to the transfer
    nchunk,   \* chunks delivered so far
    rcvLen,   \* bytes the receiving module was given
    taint,    \* some received byte differs from the source byte at its position
    dest,     \* "absent" | "same" (a file with the source bytes under the announced name) | "other"
    result    \* "none" | "success" | "failure"

vars == <<sc, stage, annLen, annDig, sent, nchunk, rcvLen, taint, dest, result>>

Min(a, b) == IF a < b THEN a ELSE b
Max(a, b) == IF a > b THEN a ELSE b

RcvIsSource  == rcvLen = sc.len /\ ~taint
RcvDig       == IF RcvIsSource THEN "src" ELSE "different"
Matches      == annLen = rcvLen /\ annDig = RcvDig             \* what Finalize verifies

Scenarios ==
    {[mod |-> m, len |-> l, chunk |-> c, cor |-> x, k |-> k, d |-> d, floor |-> FALSE] :
        m \in Modules, l \in 1..MaxLen, c \in ChunkLens, x \in Cors, k \in 1..3, d \in Deltas}

Canonical(s) ==       \* parameters that do not matter for a corruption class are pinned
    /\ (s.cor # "data" => s.k = 1)
    /\ (s.cor = "data" => s.k <= (s.len + s.chunk - 1) \div s.chunk)
    /\ (s.cor \notin {"len+", "len-"} => s.d = CHOOSE d \in Deltas : \A e \in Deltas : d <= e)
    /\ (s.mod = "wget" => s.chunk = CHOOSE c \in ChunkLens : \A e \in ChunkLens : c >= e)   \* one HTTP body

Init ==
    /\ sc \in {s \in Scenarios : Canonical(s)}
    /\ stage = "init" /\ annLen = -1 /\ annDig = "none"
    /\ sent = 0 /\ nchunk = 0 /\ rcvLen = 0 /\ taint = FALSE
    /\ dest = "absent" /\ result = "none"

(* The receiving module learns the length (download: before the data; upload: before the data; wget: the  *)
(* owner keeps it).                                                                                     *)
AnnounceLen(n) ==
    /\ stage \in {"init", "xfer"} /\ annLen = -1
    /\ annLen' = n
    /\ stage' = "xfer"
    /\ UNCHANGED <<sc, annDig, sent, nchunk, rcvLen, taint, dest, result>>

(* ... and the digest (upload: after the data).                                                          *)
AnnounceDig(ok) ==
    /\ stage \in {"init", "xfer"} /\ annDig = "none"
    /\ annDig' = IF ok THEN "src" ELSE "bad"
    /\ stage' = "xfer"
    /\ UNCHANGED <<sc, annLen, sent, nchunk, rcvLen, taint, dest, result>>

(* A chunk of n bytes is given to the receiving module; same = it equals the source at this position.    *)
Data(n, same) ==
    /\ stage \in {"init", "xfer"}
    /\ rcvLen' = rcvLen + n
    /\ taint' = (taint \/ ~same \/ rcvLen + n > sc.len)
    /\ nchunk' = nchunk + 1
    /\ stage' = "xfer"
    /\ UNCHANGED <<sc, annLen, annDig, dest, result>>      \* `sent` is the caller's

(* The receiver verifies and places the file, or reports failure.                                        *)
Finalize ==
    /\ stage = "xfer"
    /\ IF Matches
       THEN dest' = (IF RcvIsSource THEN "same" ELSE "other") /\ result' = "success"
       ELSE dest' = "absent" /\ result' = "failure"
    /\ stage' = "end"
    /\ UNCHANGED <<sc, annLen, annDig, sent, nchunk, rcvLen, taint>>

(* The announced length is never reached: the transfer never finalizes; the bounded TO2 ends in error.   *)
Stall ==
    /\ stage = "xfer" /\ rcvLen < annLen
    /\ dest' = "absent" /\ result' = "failure"
    /\ stage' = "end"
    /\ UNCHANGED <<sc, annLen, annDig, sent, nchunk, rcvLen, taint>>

-----------------------------------------------------------------------------
(* The honest sender and the adversary in the tunnel, driven by the scenario.                            *)
SrcLen     == sc.len
CorLen(n)  == CASE sc.cor = "len+" -> n + sc.d [] sc.cor = "len-" -> Max(0, n - sc.d) [] OTHER -> n
BodyLen    == IF sc.mod = "wget" THEN CorLen(SrcLen) ELSE SrcLen        \* wget: the HTTP body is what is altered
AllSent    == sent = BodyLen

SendLen ==
    /\ annLen = -1 /\ (sc.mod = "upload" \/ annDig # "none" \/ sc.mod = "wget")
    /\ AnnounceLen(IF sc.mod = "wget" THEN SrcLen ELSE CorLen(SrcLen))

SendDig ==
    /\ annDig = "none"
    /\ (sc.mod = "upload" => AllSent /\ annLen # -1)       \* upload sends sha-384 after the data
    /\ AnnounceDig(sc.cor # "digest")

SendChunk ==
    /\ annLen # -1 /\ (sc.mod # "upload" => annDig # "none")
    /\ ~AllSent
    /\ (sc.mod = "download" => rcvLen < annLen)           \* the device finalizes as soon as the length is reached
    /\ LET n == Min(sc.chunk, BodyLen - sent) IN
       /\ Data(n, ~(sc.cor = "data" /\ nchunk + 1 = sc.k) /\ sent + n <= SrcLen)
       /\ sent' = sent + n

Finish ==
    /\ annLen # -1 /\ annDig # "none"
    /\ \/ rcvLen >= annLen /\ (sc.mod = "download" \/ AllSent) /\ Finalize
       \/ sc.mod = "wget" /\ AllSent /\ Finalize                           \* wget verifies when the body ends
       \/ AllSent /\ rcvLen < annLen /\ sc.mod # "wget" /\ Stall

Next == SendLen \/ SendDig \/ SendChunk \/ Finish

Spec == Init /\ [][Next]_vars

-----------------------------------------------------------------------------
(* C17 *)
SuccessIdentical == result = "success" => dest = "same"
MismatchFails    == (stage = "end" /\ ~Matches) => (result = "failure" /\ dest = "absent")
NeverPartial     == dest \in {"absent", "same"}
HonestSucceeds   == (stage = "end" /\ sc.cor = "none") => (result = "success" /\ dest = "same")
CorruptFails     == (stage = "end" /\ sc.cor # "none") => (result = "failure" /\ dest = "absent")
TypeOK ==
    /\ stage \in {"init", "xfer", "end"} /\ dest \in {"absent", "same", "other"}
    /\ result \in {"none", "success", "failure"} /\ annDig \in {"none", "src", "bad"}

(* vacuity probe *)
NeverEnds == stage # "end"
=============================================================================
