--------------------------- MODULE SvcInfo_Trace ---------------------------
(* Trace validation for C16: every event recorded while scripted modules ran in a real              *)
(* fdo.TO2 / TO2Server pair (harness/svcx) must be the corresponding action of SvcInfo.tla with the   *)
(* recorded parameters; all invariants of SvcInfo.tla are evaluated in every state of the trace.      *)
(* Runs are concatenated (a config event starts a run).  An event the specification does not allow    *)
(* is reported with the name of the first condition it falsifies (TRACE_DIAG line, run, reason); the  *)
(* rest of that run is skipped and validation continues with the next run.                            *)
EXTENDS SvcInfo, Json

VARIABLES l, skip

Trace == ndJsonDeserialize("trace.ndjson")
Ev == Trace[l]

CfgOf(e) == [omods |-> e.omods, dmods |-> Range(e.dmods), devnames |-> e.devnames, devmod |-> e.devmod]

Step(chk, act) ==
    IF AllOK(chk)
    THEN act /\ skip' = FALSE
    ELSE /\ PrintT(<<"TRACE_DIAG", l, Ev.run, FirstFail(chk)>>)
         /\ skip' = TRUE
         /\ UNCHANGED vars

Info == {"err255", "owner_mtu_too_small", "dev_write_err", "dev_read_err", "owner_read_err", "resp", "tap_err", "harness_err"}

Dispatch ==
    CASE Ev.ev = "m68"          -> Step(Chk68(Ev.more, Ev.kvs), Ev68(Ev.more, Ev.kvs))
      [] Ev.ev = "owner_got"    -> Step(ChkOwnerGot(Ev.mod, Ev.msg, Ev.n, Ev.off, Ev.ok, Ev.dig, Ev.val),
                                        EvOwnerGot(Ev.mod, Ev.msg, Ev.n, Ev.off, Ev.ok, Ev.dig, Ev.val))
      [] Ev.ev = "owner_devmod" -> Step(ChkOwnerDevmod(Ev.devmod, Ev.modules), EvOwnerDevmod(Ev.devmod, Ev.modules))
      [] Ev.ev = "owner_wrote"  -> Step(ChkOwnerWrote(Ev.mod, Ev.msg, Ev.n, Ev.off), EvOwnerWrote(Ev.mod, Ev.msg, Ev.n, Ev.off, Ev.dig))
      [] Ev.ev = "module_done"  -> Step(ChkModuleDone(Ev.mod), EvModuleDone(Ev.mod))
      [] Ev.ev = "produce"      -> Step(ChkProduce(Ev.mod, Ev.block, Ev.done), EvProduce(Ev.mod, Ev.block, Ev.done))
      [] Ev.ev = "m69"          -> Step(Chk69(Ev.more, Ev.done, Ev.kvs), Ev69(Ev.more, Ev.done, Ev.kvs))
      [] Ev.ev = "activate"     -> Step(ChkActivate(Ev.mod, Ev.active), EvActivate(Ev.mod, Ev.active))
      [] Ev.ev = "dev_got"      -> Step(ChkDevGot(Ev.mod, Ev.msg, Ev.n, Ev.off, Ev.ok, Ev.dig), EvDevGot(Ev.mod, Ev.msg, Ev.n, Ev.off, Ev.ok, Ev.dig))
      [] Ev.ev = "yield_call"   -> Step(ChkYieldCall(Ev.mod), EvYieldCall(Ev.mod))
      [] Ev.ev = "dev_wrote"    -> Step(ChkDevWrote(Ev.mod, Ev.msg, Ev.n, Ev.off), EvDevWrote(Ev.mod, Ev.msg, Ev.n, Ev.off, Ev.dig))
      [] Ev.ev = "dev_yield"    -> Step(ChkDevYield(Ev.mod), EvDevYield(Ev.mod))
      [] Ev.ev = "m70"          -> Step(Chk70, Ev70)
      [] Ev.ev = "to2_result"   -> Step(ChkResult(Ev.err), EvResult(Ev.err))
      [] Ev.ev = "produce_after_done" -> Step(<< <<"produce_after_module_done", FALSE>> >>, UNCHANGED vars)
      [] Ev.ev = "crash"        -> Step(<< <<"crash", FALSE>> >>, UNCHANGED vars)
      [] Ev.ev \in Info         -> UNCHANGED <<vars, skip>>

TraceInit == Init0([omods |-> <<>>, dmods |-> {}, devnames |-> <<>>, devmod |-> <<>>]) /\ l = 1 /\ skip = TRUE

TraceNext ==
    /\ l <= Len(Trace)
    /\ l' = l + 1
    /\ IF Ev.ev = "config" THEN Reset(CfgOf(Ev)) /\ skip' = FALSE
       ELSE IF skip THEN UNCHANGED <<vars, skip>>
       ELSE Dispatch

TraceSpec == TraceInit /\ [][TraceNext]_<<vars, l, skip>>

TraceAccepted ==
    LET d == TLCGet("stats").diameter - 1 IN
    /\ PrintT(<<"TRACE_HWM", d>>)
    /\ d = Len(Trace)
=============================================================================
