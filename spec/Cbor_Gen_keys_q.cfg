\* behaviours (quick tier): maps with two pairs over 7 keys of different head sizes
SPECIFICATION GenSpec
CONSTANTS
  Ints <- KeyIntsQ
  Strs <- KeyStrsQ
  Tags <- NoTags
  Simples <- NoSimples
  MaxStack = 4
  MaxNodes = 5
  MaxDepth = 2
  MaxArr = 0
  MaxPairs = 2
  AllowWrap = FALSE
INVARIANTS Theorems Emit
