------------------------------- MODULE RvInfo -------------------------------
(***************************************************************************)
(* The interpreter of FDO rendezvous information (one directive = a list   *)
(* of [variable, value] instructions) as a state machine.                  *)
(*                                                                         *)
(*   Consume(i)  folds one instruction into the directive accumulator      *)
(*   Emit        produces the result record for the interpreting role      *)
(*                                                                         *)
(* The accumulator is deliberately NOT the one of protocol/rv.go (scheme/  *)
(* port strings patched up while scanning): it keeps, per variable, the    *)
(* set of instructions that took effect, and Emit derives every output     *)
(* from the tables below.  The tables are the ones the comments of         *)
(* protocol/rv.go and FDO 1.1 section 3.7 give: 16 variables, the value     *)
(* type of each, protocol values with scheme and default port, medium      *)
(* values, and the device-only / owner-only flags.                         *)
(*                                                                         *)
(* Values are abstracted to classes (DESIGN 1.2); `n` carries the number   *)
(* for the two table-driven variables (RVProtocol, RVMedium), `id` names   *)
(* the concrete value (the Go concretizer binds it).  "By spec there       *)
(* should be no more than one variable of each type": where a variable     *)
(* occurs more than once the result may come from any of the effective     *)
(* occurrences (candidate sets), and a field touched by a type-correct     *)
(* but out-of-range value (class "range") is not judged (DESIGN 3 C20 O).  *)
(*                                                                         *)
(* Checked by TLC: order independence, role filter, defaults, malformed    *)
(* values ignored (property C20).                                          *)
(***************************************************************************)
EXTENDS Integers, Sequences, FiniteSets, TLC

CONSTANTS
    MaxLen,     \* bound on the length of the instruction list
    Classes,    \* value classes enumerated, subset of AllClasses
    Full        \* BOOLEAN: full table-value alphabet for RVProtocol / RVMedium, else a reduced one

VARIABLES
    role,       \* "device" | "owner": whose view is computed
    consumed,   \* the instructions folded so far (history, for the properties)
    acc,        \* the directive accumulator
    phase,      \* "reading" | "emitted"
    result      \* the emitted result record (NoResult while reading)

vars == <<role, consumed, acc, phase, result>>

-----------------------------------------------------------------------------
(* Tables                                                                  *)

RVDevOnly == 0     RVOwnerOnly == 1   RVIPAddress == 2   RVDevPort == 3
RVOwnerPort == 4   RVDns == 5         RVSvCertHash == 6  RVClCertHash == 7
RVUserInput == 8   RVWifiSsid == 9    RVWifiPw == 10     RVMedium == 11
RVProtocol == 12   RVDelaysec == 13   RVBypass == 14     RVExtRV == 15

Vars == 0..15
Roles == {"device", "owner"}
AllClasses == {"valid", "boundary", "malformed", "wrongtype", "empty", "range"}

(* CBOR type of the value of each variable ("flag": presence is the        *)
(* meaning, the value is not interpreted).                                  *)
TypeOf(v) ==
    CASE v \in {RVDevOnly, RVOwnerOnly, RVUserInput, RVBypass} -> "flag"
      [] v = RVIPAddress -> "bstr-ip"
      [] v \in {RVDevPort, RVOwnerPort} -> "uint16"
      [] v \in {RVDns, RVWifiSsid, RVWifiPw} -> "tstr"
      [] v \in {RVSvCertHash, RVClCertHash} -> "hash"
      [] v \in {RVMedium, RVProtocol} -> "uint8"
      [] v = RVDelaysec -> "uint32"
      [] v = RVExtRV -> "array"

FlagVars == {v \in Vars : TypeOf(v) = "flag"}
TableVars == {RVMedium, RVProtocol}

(* Role flags: a directive carrying the other role's flag is not for us.   *)
OtherRoleFlag(r) == IF r = "device" THEN RVOwnerOnly ELSE RVDevOnly
RolePort(r) == IF r = "device" THEN RVDevPort ELSE RVOwnerPort

(* RVProtocol values: scheme and default port ("" / 0: none).  Value 0     *)
(* (RVProtRest) is "unsupported, use default"; values above 6 are          *)
(* unassigned.                                                             *)
ProtoScheme(n) ==
    CASE n = 1 -> "http" [] n = 2 -> "https" [] n = 3 -> "tcp" [] n = 4 -> "tls"
      [] n = 5 -> "coap+tcp" [] n = 6 -> "coap" [] OTHER -> ""
ProtoDefaultPort(n) ==
    CASE n = 1 -> 80 [] n = 2 -> 443 [] n = 5 -> 5683 [] n = 6 -> 5683 [] OTHER -> 0
DefaultScheme == "tls"
NoPort == 0

(* RVMedium values: 0..9 wired interface n, 10..19 wireless interface      *)
(* n-10, 20 all wired, 21 all wireless, the rest unassigned.               *)
MediumOf(n) ==
    CASE n >= 0 /\ n < 10 -> [k |-> "eth", i |-> n]
      [] n >= 10 /\ n < 20 -> [k |-> "wlan", i |-> n - 10]
      [] n = 20 -> [k |-> "eth", i |-> 20]
      [] n = 21 -> [k |-> "wlan", i |-> 21]
      [] OTHER -> [k |-> "", i |-> 0]

(* Numbers enumerated for the table-driven variables per class.            *)
TableValues(v, c) ==
    IF v = RVProtocol THEN
        CASE c = "valid" -> IF Full THEN 1..6 ELSE {1, 2, 4}
          [] c = "boundary" -> IF Full THEN {0, 7, 255} ELSE {0}
          [] OTHER -> {0}
    ELSE IF v = RVMedium THEN
        CASE c = "valid" -> IF Full THEN {3, 14} ELSE {3}
          [] c = "boundary" -> IF Full THEN {0, 9, 10, 19, 20, 21, 22, 255} ELSE {21, 22}
          [] OTHER -> {0}
    ELSE {0}

(* The instruction alphabet (id is attached when the instruction is read). *)
InstrsOf(v, id) == UNION {{[var |-> v, cls |-> c, n |-> n, id |-> id] : n \in TableValues(v, c)} : c \in Classes}
Instrs(id) == UNION {InstrsOf(v, id) : v \in Vars}

-----------------------------------------------------------------------------
(* The accumulator and Consume                                             *)

EmptyAcc == [flags |-> {}, eff |-> [v \in Vars |-> {}], unj |-> {}]

(* Does the value of instruction i decode as the variable's type and lie   *)
(* in the range the tables give a meaning to?                              *)
TakesEffect(i) ==
    /\ i.cls \in {"valid", "boundary"}
    /\ i.var = RVProtocol => ProtoScheme(i.n) # ""
    /\ i.var = RVMedium => MediumOf(i.n).k # ""

Fold(a, i) ==
    IF i.var \in FlagVars THEN [a EXCEPT !.flags = @ \cup {i.var}]
    ELSE IF TakesEffect(i) THEN [a EXCEPT !.eff[i.var] = @ \cup {i}]
    ELSE IF i.cls = "range" THEN [a EXCEPT !.unj = @ \cup {i.var}]
    ELSE a      \* malformed CBOR, wrong major type, empty value, unassigned table value: ignored

RECURSIVE FoldSeq(_)
FoldSeq(s) == IF s = <<>> THEN EmptyAcc ELSE Fold(FoldSeq(SubSeq(s, 1, Len(s) - 1)), s[Len(s)])

-----------------------------------------------------------------------------
(* Emit: the result for a role                                             *)

Ids(S) == {i.id : i \in S}

(* A field whose value comes from the instructions of variable v.          *)
Field(a, v) == [judge |-> v \notin a.unj, from |-> Ids(a.eff[v])]
NoField == [judge |-> TRUE, from |-> {}]

NoResult == [applies |-> FALSE, dns |-> NoField, ip |-> NoField,
             port |-> [judge |-> TRUE, from |-> {}, dflt |-> {}],
             scheme |-> [judge |-> TRUE, cands |-> {}],
             bypass |-> FALSE, medium |-> [judge |-> TRUE, cands |-> {}],
             delay |-> NoField, ssid |-> NoField, pw |-> NoField,
             svhash |-> NoField, clhash |-> NoField, ext |-> NoField]

ResultOf(a, r) ==
    IF OtherRoleFlag(r) \in a.flags THEN NoResult      \* not for this role: contributes nothing
    ELSE
    LET pv == RolePort(r)
        protos == a.eff[RVProtocol]
    IN [applies |-> TRUE,
        dns |-> Field(a, RVDns),                       \* one URL per effective host kind
        ip |-> Field(a, RVIPAddress),
        port |-> [judge |-> pv \notin a.unj /\ (a.eff[pv] # {} \/ RVProtocol \notin a.unj),
                  from |-> Ids(a.eff[pv]),             \* role-specific port, else ...
                  dflt |-> IF a.eff[pv] # {} THEN {}   \* ... the protocol's default
                           ELSE IF protos = {} THEN {NoPort}
                           ELSE {ProtoDefaultPort(i.n) : i \in protos}],
        scheme |-> [judge |-> RVProtocol \notin a.unj,
                    cands |-> IF protos = {} THEN {DefaultScheme} ELSE {ProtoScheme(i.n) : i \in protos}],
        bypass |-> RVBypass \in a.flags,
        medium |-> [judge |-> RVMedium \notin a.unj, cands |-> {MediumOf(i.n) : i \in a.eff[RVMedium]}],
        delay |-> Field(a, RVDelaysec),
        ssid |-> Field(a, RVWifiSsid),
        pw |-> Field(a, RVWifiPw),
        svhash |-> Field(a, RVSvCertHash),
        clhash |-> Field(a, RVClCertHash),
        ext |-> Field(a, RVExtRV)]

-----------------------------------------------------------------------------
(* The machine                                                             *)

Init ==
    /\ role \in Roles
    /\ consumed = <<>>
    /\ acc = EmptyAcc
    /\ phase = "reading"
    /\ result = NoResult

Consume(i) ==
    /\ phase = "reading"
    /\ Len(consumed) < MaxLen
    /\ i.id = Len(consumed) + 1
    /\ consumed' = Append(consumed, i)
    /\ acc' = Fold(acc, i)
    /\ UNCHANGED <<role, phase, result>>

Emit ==
    /\ phase = "reading"
    /\ phase' = "emitted"
    /\ result' = ResultOf(acc, role)
    /\ UNCHANGED <<role, consumed, acc>>

Next == (\E i \in Instrs(Len(consumed) + 1) : Consume(i)) \/ Emit

Spec == Init /\ [][Next]_vars

-----------------------------------------------------------------------------
(* Properties                                                              *)

TypeOK ==
    /\ role \in Roles
    /\ phase \in {"reading", "emitted"}
    /\ Len(consumed) <= MaxLen
    /\ acc.flags \subseteq FlagVars
    /\ acc.unj \subseteq Vars \ FlagVars
    /\ acc = FoldSeq(consumed)
    /\ phase = "reading" => result = NoResult

PermsOf(s) == {[k \in 1..Len(s) |-> s[f[k]]] : f \in Permutations(1..Len(s))}
DistinctVars(s) == \A j, k \in 1..Len(s) : j # k => s[j].var # s[k].var

(* The result does not depend on the order of the instructions (claimed by *)
(* the property for instructions of distinct variables; with candidate     *)
(* sets it holds for every list).                                          *)
OrderIndependent ==
    phase = "emitted" =>
        \A p \in PermsOf(consumed) : ResultOf(FoldSeq(p), role) = result

OrderIndependentDistinct ==
    (phase = "emitted" /\ DistinctVars(consumed)) =>
        \A p \in PermsOf(consumed) : ResultOf(FoldSeq(p), role) = result

(* Step form (DESIGN 3 C20): consuming two instructions commutes.          *)
Commutes ==
    Len(consumed) >= 2 =>
        LET n == Len(consumed)
            pre == FoldSeq(SubSeq(consumed, 1, n - 2))
        IN Fold(Fold(pre, consumed[n]), consumed[n - 1]) = acc

(* A directive marked for the other role contributes no address (and       *)
(* nothing else).                                                          *)
RoleFilter ==
    (phase = "emitted" /\ \E k \in 1..Len(consumed) : consumed[k].var = OtherRoleFlag(role)) =>
        /\ ~result.applies
        /\ result.dns.from = {} /\ result.ip.from = {}
        /\ result = NoResult

(* ... and a flag of our own role, or the other role's port, changes       *)
(* nothing.                                                                *)
OwnRoleNeutral ==
    phase = "emitted" =>
        LET neutral(i) == i.var \in {IF role = "device" THEN RVDevOnly ELSE RVOwnerOnly,
                                      IF role = "device" THEN RVOwnerPort ELSE RVDevPort,
                                      RVUserInput}
        IN ResultOf(FoldSeq(SelectSeq(consumed, LAMBDA i : ~neutral(i))), role) = result

(* Defaults: without an effective instruction the tables' defaults apply.  *)
Defaults ==
    (phase = "emitted" /\ result.applies) =>
        LET has(v) == \E k \in 1..Len(consumed) : consumed[k].var = v /\ (TakesEffect(consumed[k]) \/ consumed[k].cls = "range")
        IN /\ ~has(RVProtocol) => result.scheme = [judge |-> TRUE, cands |-> {DefaultScheme}]
           /\ (~has(RVProtocol) /\ ~has(RolePort(role))) => result.port = [judge |-> TRUE, from |-> {}, dflt |-> {NoPort}]
           /\ (~has(RolePort(role)) /\ has(RVProtocol) /\ result.port.judge) =>
                   result.port.from = {} /\ result.port.dflt \subseteq {0, 80, 443, 5683}
           /\ ~has(RVDelaysec) => result.delay = NoField
           /\ ~has(RVMedium) => result.medium = [judge |-> TRUE, cands |-> {}]
           /\ ~has(RVDns) => result.dns = NoField
           /\ ~has(RVIPAddress) => result.ip = NoField
           /\ (\A k \in 1..Len(consumed) : consumed[k].var # RVBypass) => ~result.bypass

(* Malformed values (not the variable's CBOR type, or empty) are ignored:  *)
(* dropping them from the list does not change the result, and they are    *)
(* never a candidate source of any field.                                  *)
Ignored(i) == i.var \notin FlagVars /\ i.cls \in {"malformed", "wrongtype", "empty"}
MalformedIgnored ==
    phase = "emitted" =>
        /\ ResultOf(FoldSeq(SelectSeq(consumed, LAMBDA i : ~Ignored(i))), role) = result
        /\ LET bad == {consumed[k].id : k \in {j \in 1..Len(consumed) : Ignored(consumed[j])}}
           IN \A f \in {result.dns, result.ip, result.delay, result.ssid, result.pw,
                        result.svhash, result.clhash, result.ext} : f.from \cap bad = {}
        /\ LET badp == {consumed[k].id : k \in {j \in 1..Len(consumed) : Ignored(consumed[j])}}
           IN result.port.from \cap badp = {}

(* Each candidate port is the role's own port or the default of one of the *)
(* candidate schemes.                                                      *)
PortFromTables ==
    (phase = "emitted" /\ result.applies /\ result.port.from = {} /\ result.scheme.judge) =>
        \A p \in result.port.dflt :
            \/ p = NoPort
            \/ \E n \in 0..7 : ProtoScheme(n) \in result.scheme.cands /\ ProtoDefaultPort(n) = p
=============================================================================
