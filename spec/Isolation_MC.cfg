SPECIFICATION Spec
CONSTANTS
  Devs = {"d1", "d2"}
  Kinds = {"P256"}
  Encs = {"X509", "X5CHAIN", "COSE"}
  Rvs = {1, 2}
  Mtus = {"default"}
  ModCounts = {0, 1}
  Vols = {1}
  OwnerChain = TRUE
  Memo = FALSE
INVARIANTS TypeOK NonInterference
PROPERTIES OwnRowOnly
